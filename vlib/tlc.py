"""TLC runner: every invocation runs in a private scratch directory that holds copies of
/verif/spec/*.tla plus the (possibly generated) MC module and cfg.  PrintT(ToJson(..)) lines are
streamed to a callback as decoded JSON objects.  Always under a timeout."""
import json
import os
import re
import shutil
import subprocess
import tempfile
import time
from pathlib import Path

VERIF = Path(__file__).resolve().parent.parent
SPEC_DIR = VERIF / "spec"
JAR = "/opt/veriftools/tla/tla2tools.jar:/opt/veriftools/tla/CommunityModules-deps.jar"


class MachineryError(Exception):
    """TLC crashed / spec did not parse / timeout: exit code 2, never a property verdict."""


class TLCResult:
    def __init__(self):
        self.generated = 0
        self.distinct = 0
        self.depth = 0
        self.ok = False
        self.invariant_violations = []  # names
        self.emitted = 0
        self.wall = 0.0
        self.tail = []
        self.coverage = {}  # action name -> (distinct, total)
        self.error_trace = []

    def as_dict(self):
        return {
            "generated": self.generated,
            "distinct": self.distinct,
            "depth": self.depth,
            "ok": self.ok,
            "invariant_violations": self.invariant_violations,
            "emitted": self.emitted,
            "wall_s": round(self.wall, 2),
        }


_scratch_root = None


def scratch_root():
    global _scratch_root
    if _scratch_root is None:
        inherited = os.environ.get("VERIF_SCRATCH_ROOT")
        if inherited and os.path.isdir(inherited):      # a worker process: use (and leave the removal to) the check's own scratch directory
            _scratch_root = inherited
            return _scratch_root
        _scratch_root = tempfile.mkdtemp(prefix="pyprob-verif-")
        os.environ["VERIF_SCRATCH_ROOT"] = _scratch_root
        import atexit

        atexit.register(lambda: shutil.rmtree(_scratch_root, ignore_errors=True))
    return _scratch_root


def new_scratch(tag="run"):
    return tempfile.mkdtemp(prefix=tag + "-", dir=scratch_root())


_RE_STATES = re.compile(r"^(\d+) states generated, (\d+) distinct states found")
_RE_DEPTH = re.compile(r"depth of the complete state graph search is (\d+)")
_RE_INV = re.compile(r"Invariant (\S+) is violated")
_RE_ACTPROP = re.compile(r"Action property (\S+) is violated")
_RE_COV = re.compile(r"^<(\w+) line .*>: (\d+):(\d+)")
_RE_SIMSTATES = re.compile(r"^The number of states generated: (\d+)")


def run_tlc(
    module,
    cfg_text,
    *,
    extra_modules=None,
    workers=1,
    simulate=None,
    depth=None,
    seed=None,
    timeout=900,
    on_json=None,
    on_raw=None,
    coverage=False,
    env_extra=None,
    java_opts=None,
    files=None,
    allow_violation=False,
    heap="4g",
    stack="16m",
):
    """module: name of a module in /verif/spec, or (name, text) for a generated module.
    extra_modules: dict name->text of additional generated modules.
    files: dict filename->bytes/str written into the scratch dir (trace inputs)."""
    sdir = Path(new_scratch("tlc"))
    for f in SPEC_DIR.glob("*.tla"):
        shutil.copy(f, sdir / f.name)
    if isinstance(module, tuple):
        name, text = module
        (sdir / f"{name}.tla").write_text(text)
    else:
        name = module
    for n, t in (extra_modules or {}).items():
        (sdir / f"{n}.tla").write_text(t)
    for n, t in (files or {}).items():
        mode = "wb" if isinstance(t, (bytes, bytearray)) else "w"
        with open(sdir / n, mode) as fh:
            fh.write(t)
    (sdir / f"{name}.cfg").write_text(cfg_text)
    if workers <= 2:
        cmd = ["java", "-XX:+UseSerialGC", "-XX:CICompilerCount=2", f"-Xmx{heap}", f"-Xss{stack}"]
    else:
        cmd = ["java", "-XX:+UseParallelGC", f"-XX:ParallelGCThreads={min(8, workers)}", f"-Xmx{heap}", f"-Xss{stack}"]
    cmd += list(java_opts or [])
    (sdir / "jtmp").mkdir(exist_ok=True)      # the JVM's own temporary directories (tlc-*, SANY*) go into the run's scratch directory, not /tmp
    cmd += [f"-Djava.io.tmpdir={sdir / 'jtmp'}"]
    cmd += ["-cp", JAR, "tlc2.TLC", "-workers", str(workers), "-metadir", str(sdir / "meta"), "-noGenerateSpecTE"]
    if coverage:
        cmd += ["-coverage", "1"]
    if simulate is not None:
        cmd += ["-simulate", f"num={simulate}"]
        if depth is not None:
            cmd += ["-depth", str(depth)]
    if seed is not None:
        cmd += ["-seed", str(seed)]
    cmd += ["-config", f"{name}.cfg", f"{name}.tla"]
    env = dict(os.environ)
    env.pop("JAVA_TOOL_OPTIONS", None)
    env.update(env_extra or {})
    res = TLCResult()
    t0 = time.time()
    proc = subprocess.Popen(cmd, cwd=sdir, stdout=subprocess.PIPE, stderr=subprocess.STDOUT, env=env, text=True, bufsize=1 << 20)
    deadline = t0 + timeout
    finished = False
    in_error = False
    try:
        for line in proc.stdout:
            if line.startswith('"{') or line.startswith('"['):
                res.emitted += 1
                if on_raw is not None:
                    on_raw(line)
                elif on_json is not None:
                    try:
                        on_json(json.loads(json.loads(line)))
                    except json.JSONDecodeError as e:  # machinery problem
                        raise MachineryError(f"undecodable emission: {line[:200]!r}: {e}")
                continue
            s = line.rstrip("\n")
            res.tail.append(s)
            if len(res.tail) > 400:
                del res.tail[:200]
            m = _RE_STATES.match(s)
            if m:
                res.generated, res.distinct = int(m.group(1)), int(m.group(2))
            m = _RE_SIMSTATES.match(s)
            if m:
                res.generated = int(m.group(1))
                res.distinct = max(res.distinct, 1)
            m = _RE_DEPTH.search(s)
            if m:
                res.depth = int(m.group(1))
            m = _RE_INV.search(s) or _RE_ACTPROP.search(s)
            if m:
                res.invariant_violations.append(m.group(1).rstrip("."))
                in_error = True
            if in_error and (s.startswith("State ") or s.startswith("/\\") or s.startswith("  ")):
                if len(res.error_trace) < 200:
                    res.error_trace.append(s)
            m = _RE_COV.match(s)
            if m:
                res.coverage[m.group(1)] = (int(m.group(2)), int(m.group(3)))
            if "Model checking completed" in s or s.startswith("Finished in") or "Simulation" in s and "complete" in s:
                finished = True
            if time.time() > deadline:
                proc.kill()
                raise MachineryError(f"TLC timeout after {timeout}s on {name}")
        proc.wait(timeout=30)
    finally:
        if proc.poll() is None:
            proc.kill()
        res.wall = time.time() - t0
        shutil.rmtree(sdir, ignore_errors=True)
    rc = proc.returncode
    if res.invariant_violations:
        res.ok = False
        if not allow_violation:
            pass
        return res
    if rc != 0 or not finished:
        raise MachineryError(f"TLC failed on {name} (rc={rc}):\n" + "\n".join(res.tail[-40:]))
    res.ok = True
    return res


def clamp_ints(x, lim=2 ** 30):
    """TLC integers are 32-bit: a number the code reports beyond +-2^30 (only a misbehaving tree does, in the traces that use plain integers)
    is sent as +-2^30, which still differs from every value the small models expect - the trace gets a verdict instead of an overflow"""
    if isinstance(x, bool):
        return x
    if isinstance(x, int):
        return max(-lim, min(lim, x))
    if isinstance(x, float):
        return max(-lim, min(lim, int(x)))
    if isinstance(x, list):
        return [clamp_ints(v, lim) for v in x]
    if isinstance(x, tuple):
        return [clamp_ints(v, lim) for v in x]
    if isinstance(x, dict):
        return {k: clamp_ints(v, lim) for k, v in x.items()}
    return x


def tla_str(s):
    return '"' + s.replace("\\", "\\\\").replace('"', '\\"') + '"'


def tla_val(v):
    """Python value -> TLA+ expression (ints, bools, str, list->tuple, set->set, dict->record/function)."""
    if isinstance(v, bool):
        return "TRUE" if v else "FALSE"
    if isinstance(v, int):
        return str(v) if v >= 0 else f"(0-{-v})"
    if isinstance(v, str):
        return tla_str(v)
    if isinstance(v, (list, tuple)):
        return "<<" + ", ".join(tla_val(x) for x in v) + ">>"
    if isinstance(v, (set, frozenset)):
        return "{" + ", ".join(tla_val(x) for x in sorted(v, key=repr)) + "}"
    if isinstance(v, dict):
        if all(isinstance(k, str) and re.match(r"^[A-Za-z_]\w*$", k) for k in v):
            return "[" + ", ".join(f"{k} |-> {tla_val(x)}" for k, x in v.items()) + "]"
        return "(" + " @@ ".join(f"{tla_val(k)} :> {tla_val(x)}" for k, x in v.items()) + ")"
    raise TypeError(type(v))
