"""Verdict bookkeeping shared by all engines: clause tallies per property, violations with replay
files, conformance drift, non-trivial-case counting, evidence files, known findings."""
import hashlib
import json
import os
import sys
import time
from pathlib import Path

VERIF = Path(__file__).resolve().parent.parent
REPO = Path(os.environ.get("VERIF_REPO", "/repo"))
EVIDENCE = VERIF / "evidence"
REPLAYS = VERIF / "replays"
KNOWN = VERIF / "known_findings.json"

if str(REPO) not in sys.path:
    sys.path.insert(0, str(REPO))
sys.dont_write_bytecode = True


def fmap(x):
    """TLC's ToJson renders a function on 1..n as an array and on any other domain as an object
    with string keys: normalise both to {int: value}."""
    if isinstance(x, list):
        return {i + 1: v for i, v in enumerate(x)}
    return {int(k): v for k, v in x.items()}


def vary_buf(data, salt=""):
    """the loaders take a ByteString: hand the same export over as bytes, bytearray or memoryview (chosen deterministically from the
    payload, so that a replay makes the same choice)"""
    import zlib

    form = (bytes, bytearray, memoryview)[zlib.crc32(bytes(data[:64]) + repr(salt).encode()) % 3]
    return form(bytes(data))


def jdump(o):
    return json.dumps(o, sort_keys=True, default=_default)


def _default(o):
    if isinstance(o, (set, frozenset)):
        return sorted(o, key=repr)
    if isinstance(o, (bytes, bytearray)):
        return o.hex()
    if isinstance(o, tuple):
        return list(o)
    return repr(o)


class Violation:
    __slots__ = ("prop", "clause", "engine", "replay", "sig")

    def __init__(self, prop, clause, engine, replay, sig=None):
        self.prop = prop
        self.clause = clause
        self.engine = engine
        self.replay = replay  # dict: cfg, history, op, expected, observed, ...
        self.sig = sig or {}


class Tally:
    """Collects what one check run covered.  One Tally per check invocation (focus property);
    engines report clause evaluations for any property, only the focus property is kept in detail."""

    MAX_KEEP = 25

    def __init__(self, focus):
        self.focus = focus
        self.clauses = {}  # clause -> [evaluated, failed]
        self.violations = []  # Violation (focus property only)
        self.other_violations = {}  # prop -> count (informational)
        self.drift = 0
        self.drift_examples = []
        self.evaluations = 0
        self.nontrivial = set()
        self.samples = []
        self.mc = []  # list of dicts: per TLC model-checking run
        self.s2c = 0  # spec->code behaviours/transitions executed against the implementation
        self.c2s = 0  # code->spec traces validated by TLC
        self.exhaustive = True
        self.notes = []
        self.rules = []
        self.assumptions = []
        self.extra = {}
        self._vseen = set()
        self.cur = None  # what the worker is executing right now (module, params, emitted edge): stored with a violation for replay

    # -- clause results -------------------------------------------------------------------------
    def ok(self, prop, clause, n=1):
        if prop != self.focus:
            return
        c = self.clauses.setdefault(clause, [0, 0])
        c[0] += n

    def fail(self, prop, clause, engine, replay, sig=None):
        if prop != self.focus:
            self.other_violations[prop] = self.other_violations.get(prop, 0) + 1
            return
        c = self.clauses.setdefault(clause, [0, 0])
        c[0] += 1
        c[1] += 1
        key = (clause, jdump(sig or {}))
        if self.cur is not None and isinstance(replay, dict) and "_replay" not in replay:
            replay = dict(replay, _replay=self.cur)
        if len(self.violations) < self.MAX_KEEP or key not in self._vseen:
            if len(self.violations) < 400:
                self.violations.append(Violation(prop, clause, engine, replay, sig))
        self._vseen.add(key)

    def check(self, cond, prop, clause, engine, replay_fn, sig=None):
        if prop != self.focus:
            if not cond:
                self.other_violations[prop] = self.other_violations.get(prop, 0) + 1
            return cond
        if cond:
            c = self.clauses.setdefault(clause, [0, 0])
            c[0] += 1
        else:
            self.fail(prop, clause, engine, replay_fn() if callable(replay_fn) else replay_fn, sig)
        return cond

    def add_drift(self, engine, example):
        self.drift += 1
        if len(self.drift_examples) < 3:
            self.drift_examples.append({"engine": engine, **example})

    def nontriv(self, key):
        self.nontrivial.add(key if isinstance(key, (str, int)) else jdump(key))

    def sample(self, s, cap=4):
        if len(self.samples) < cap:
            self.samples.append(s)

    def merge(self, other):
        for k, (a, b) in other.clauses.items():
            c = self.clauses.setdefault(k, [0, 0])
            c[0] += a
            c[1] += b
        for v in other.violations:
            if len(self.violations) < 400:
                self.violations.append(v)
        for p, n in other.other_violations.items():
            self.other_violations[p] = self.other_violations.get(p, 0) + n
        self.drift += other.drift
        self.drift_examples = (self.drift_examples + other.drift_examples)[:3]
        self.evaluations += other.evaluations
        self.nontrivial |= other.nontrivial
        for s in other.samples:
            self.sample(s)
        self.mc += other.mc
        self.s2c += other.s2c
        self.c2s += other.c2s
        self.exhaustive = self.exhaustive and other.exhaustive
        self.notes += other.notes
        for r in other.rules:
            if r not in self.rules:
                self.rules.append(r)
        for r in other.assumptions:
            if r not in self.assumptions:
                self.assumptions.append(r)
        for k, v in other.extra.items():
            if isinstance(v, (int, float)) and isinstance(self.extra.get(k), (int, float)):
                self.extra[k] += v
            else:
                self.extra[k] = v


# -- known findings ---------------------------------------------------------------------------------
def load_known():
    if not KNOWN.exists():
        return []
    return json.loads(KNOWN.read_text()).get("findings", [])


def match_known(v, known):
    """A violation matches an *open* finding iff every key of the finding's signature equals the
    violation's signature value (fixed entries never suppress)."""
    for k in known:
        if k.get("status") != "open" or k.get("property") != v.prop:
            continue
        sig = k.get("signature", {})
        if sig.get("clause") not in (None, v.clause):
            continue
        if all(v.sig.get(a) == b for a, b in sig.items() if a != "clause"):
            return k
    return None


# -- finishing a check ------------------------------------------------------------------------------
def finish(tally, tier, seed, level, wall, level_rule=""):
    """Write replay files + evidence, print verdict lines, return exit code."""
    prop = tally.focus
    known = load_known()
    REPLAYS.mkdir(exist_ok=True)
    EVIDENCE.mkdir(exist_ok=True)
    new, kn = [], {}
    for v in tally.violations:
        k = match_known(v, known)
        if k is not None:
            kn.setdefault(k["id"], [k, 0])[1] += 1
        else:
            new.append(v)
    for kid, (k, n) in kn.items():
        print(f"KNOWN-FINDING: property={prop} {k['id']}: {k['what']} ({n} occurrences this run)")
    per_clause = {}
    for v in new:
        k = per_clause.setdefault((v.clause, v.engine), [])
        if len(k) < 3:
            k.append(v)
    printed = 0
    for (clause, engine), vs in sorted(per_clause.items()):
        for v in vs:
            body = {"property": prop, "clause": v.clause, "engine": v.engine, "signature": v.sig, **v.replay}
            h = hashlib.sha1(jdump(body).encode()).hexdigest()[:12]
            path = REPLAYS / f"{prop}-{v.clause.replace('.', '_')}-{h}.json"
            path.write_text(json.dumps(body, indent=1, default=_default))
            if printed < 24:
                print(f"VIOLATION property={prop} replay={path}  clause={v.clause} engine={v.engine}")
                printed += 1
    states = sum(m.get("distinct", 0) for m in tally.mc)
    trans = sum(m.get("generated", 0) for m in tally.mc)
    cov = {
        "evaluations": int(tally.evaluations),
        "distinct_nontrivial": len(tally.nontrivial),
        "rule": " | ".join(tally.rules) or level_rule,
        "samples": tally.samples[:4] or [{"note": "no sample recorded"}],
        "states": int(states),
        "transitions": int(trans),
        "traces_validated_against_impl": int(tally.s2c + tally.c2s),
        "spec_to_code_transitions_executed": int(tally.s2c),
        "code_to_spec_traces_validated": int(tally.c2s),
        "exhaustive": bool(tally.exhaustive),
        "clauses": {k: {"evaluated": a, "failed": b} for k, (a, b) in sorted(tally.clauses.items())},
        "drift_steps": tally.drift,
        "drift_examples": tally.drift_examples,
        "tlc_runs": tally.mc,
        "known_findings_matched": {k: n for k, (_, n) in kn.items()},
        "violations_of_other_properties_seen": tally.other_violations,
        "notes": tally.notes,
    }
    cov.update(tally.extra)
    ev = {
        "property_id": prop,
        "tier": tier,
        "seed": int(seed),
        "level": level,
        "coverage": cov,
        "assumptions": tally.assumptions,
        "wall_s": round(wall, 2),
        "violations": len(new),
    }
    (EVIDENCE / f"{prop}.json").write_text(json.dumps(ev, indent=1, default=_default))
    if tally.drift:
        print(f"DRIFT property={prop} steps={tally.drift} (model no longer describes the code on these steps; not a property verdict) first={jdump(tally.drift_examples[:1])[:400]}")
    nev = sum(a for a, _ in tally.clauses.values())
    print(
        f"property={prop} tier={tier} seed={seed} clause_evaluations={nev} evaluations={tally.evaluations} "
        f"nontrivial={len(tally.nontrivial)} model_states={states} s2c={tally.s2c} c2s={tally.c2s} "
        f"violations={len(new)} known={sum(n for _, n in kn.values())} drift={tally.drift} wall={wall:.1f}s"
    )
    return 1 if new else 0
