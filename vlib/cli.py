"""./check <ID> [--tier quick|thorough] [--seed N]   |   ./check replay <path>   |   ./check selftest"""
import argparse
import importlib
import os
import sys
import time
import traceback

from . import core
from .core import Tally
from .tlc import MachineryError

# property -> (level, [engine module names])
REGISTRY = {
    "C01": ("model_checking", ["bloomfam"]),
    "C03": ("model_checking", ["cuckoo"]),
    "C04": ("model_checking", ["qf"]),
    "C05": ("model_checking", ["bloomfam", "cuckoo"]),
    "C08": ("model_checking", ["bloomfam", "cuckoo"]),
    "C12": ("model_checking", ["bloomfam"]),
    "C13": ("model_checking", ["bloomfam"]),
    "C14": ("model_checking", ["bloomfam", "qf", "cuckoo"]),
    "C16": ("model_checking", ["bloomfam"]),
    "C15": ("model_checking", ["cuckoo"]),
    "C19": ("model_checking", ["bloomfam", "qf", "cuckoo"]),
    "C20": ("model_checking", ["bitarray"]),
}


def run_check(prop, tier, seed):
    level, engines = REGISTRY[prop]
    t0 = time.time()
    total = Tally(prop)
    for en in engines:
        mod = importlib.import_module(f"vlib.engines.{en}")
        total.merge(mod.run(prop, tier, seed))
    return core.finish(total, tier, seed, level, time.time() - t0)


def main(argv=None):
    ap = argparse.ArgumentParser()
    ap.add_argument("what")
    ap.add_argument("arg", nargs="?")
    ap.add_argument("--tier", default=os.environ.get("VERIF_TIER", "quick"))
    ap.add_argument("--seed", type=int, default=int(os.environ.get("VERIF_SEED", "0") or 0))
    a = ap.parse_args(argv)
    try:
        if a.what == "replay":
            from . import replay

            return replay.main(a.arg)
        if a.what == "selftest":
            from . import selftest

            return selftest.main(a.tier, a.seed)
        if a.what not in REGISTRY:
            print(f"unknown property {a.what}", file=sys.stderr)
            return 2
        if a.tier not in ("quick", "thorough"):
            a.tier = "quick"
        return run_check(a.what, a.tier, a.seed)
    except MachineryError as e:
        print(f"MACHINERY-FAILURE: {e}", file=sys.stderr)
        return 2
    except Exception:
        traceback.print_exc()
        return 2


if __name__ == "__main__":
    sys.exit(main())
