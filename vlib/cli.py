"""./check <ID> [--tier quick|thorough] [--seed N]   |   ./check replay <path>   |   ./check selftest"""
import argparse
import importlib
import os
import sys
import time
import traceback

from . import core
from .core import Tally
from .tlc import MachineryError

# property -> (level, [engine module names])
REGISTRY = {
    "C01": ("model_checking", ["bloomfam", "expanding", "scale", "proofs", "repotests"]),
    "C02": ("model_checking", ["countmin", "scale", "repotests", "proofs"]),
    "C03": ("model_checking", ["cuckoo", "scale", "repotests"]),
    "C04": ("model_checking", ["qf", "scale", "repotests"]),
    "C05": ("model_checking", ["bloomfam", "countmin", "cuckoo", "expanding", "scale"]),
    "C06": ("model_checking", ["layout", "saturation"]),
    "C07": ("model_checking", ["sizing", "scale", "construct"]),
    "C08": ("model_checking", ["bloomfam", "cuckoo", "scale", "repotests", "proofs"]),
    "C09": ("model_checking", ["expanding", "scale", "repotests", "proofs"]),
    "C10": ("model_checking", ["expanding", "scale", "repotests", "proofs"]),
    "C11": ("fault_enumeration", ["ondisk", "scale"]),
    "C12": ("model_checking", ["bloomfam", "countmin", "scale", "saturation"]),
    "C13": ("model_checking", ["bloomfam", "countmin", "compat", "saturation", "scale"]),
    "C14": ("model_checking", ["bloomfam", "countmin", "qf", "cuckoo", "expanding", "scale", "repotests"]),
    "C16": ("model_checking", ["bloomfam", "countmin", "saturation"]),
    "C15": ("model_checking", ["cuckoo", "scale"]),
    "C17": ("model_checking", ["countmin", "scale"]),
    "C18": ("model_checking", ["hashes"]),
    "C19": ("model_checking", ["bloomfam", "countmin", "qf", "cuckoo", "expanding", "scale", "saturation"]),
    "C20": ("model_checking", ["bitarray", "scale"]),
}


def run_check(prop, tier, seed):
    level, engines = REGISTRY[prop]
    t0 = time.time()
    total = Tally(prop)
    results, errors = {}, []

    def one(en):
        try:
            mod = importlib.import_module(f"vlib.engines.{en}")
            results[en] = mod.run(prop, tier, seed)
        except Exception as exc:  # noqa
            errors.append(exc)

    # engines run concurrently (each one is mostly waiting for its TLC processes and workers)
    import threading

    group = 2 if tier == "quick" else 1
    for i in range(0, len(engines), group):
        ths = [threading.Thread(target=one, args=(en,)) for en in engines[i:i + group]]
        for th in ths:
            th.start()
        for th in ths:
            th.join()
    if errors:
        raise errors[0]
    for en in engines:
        total.merge(results[en])
    return core.finish(total, tier, seed, level, time.time() - t0)


def main(argv=None):
    ap = argparse.ArgumentParser()
    ap.add_argument("what")
    ap.add_argument("arg", nargs="?")
    ap.add_argument("--tier", default=os.environ.get("VERIF_TIER", "quick"))
    ap.add_argument("--seed", type=int, default=int(os.environ.get("VERIF_SEED", "0") or 0))
    a = ap.parse_args(argv)
    os.environ.pop("VERIF_SCRATCH_ROOT", None)
    from . import tlc

    tlc.scratch_root()      # created (and exported to the worker processes) before any pool starts; removed when the check exits
    try:
        if a.what == "replay":
            from . import replay

            return replay.main(a.arg)
        if a.what == "selftest":
            from . import selftest

            return selftest.main(a.tier, a.seed)
        if a.what not in REGISTRY:
            print(f"unknown property {a.what}", file=sys.stderr)
            return 2
        if a.tier not in ("quick", "thorough"):
            a.tier = "quick"
        return run_check(a.what, a.tier, a.seed)
    except MachineryError as e:
        print(f"MACHINERY-FAILURE: {e}", file=sys.stderr)
        return 2
    except Exception:
        traceback.print_exc()
        return 2


if __name__ == "__main__":
    sys.exit(main())
