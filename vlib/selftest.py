"""./check selftest : demonstrates that the specifications are bound to the code (a corrupted recorded field, a corrupted
expected observation or a missing scripted random choice is rejected) and that no clause of the last runs was vacuous."""
import copy
import json

from .core import EVIDENCE, Tally


def main(tier="quick", seed=0):
    ok = True

    def report(name, good, detail=""):
        nonlocal ok
        ok = ok and good
        print(("PASS " if good else "FAIL ") + name + (" : " + detail if detail else ""))

    # 1. code -> spec: TraceLayout accepts recorded traces and rejects them with one byte / one answer corrupted
    from .engines import layout

    traces = layout.record(seed + 5, 9, 8, ["bloom", "cbloom", "cms", "ebf", "rbf", "cko", "ccko", "cms", "bloom"])
    v, _ = layout.validate(traces)
    report("TraceLayout accepts the recorded traces", all(not f for f in v.values()), str({k: f for k, f in v.items() if f}))
    bad = copy.deepcopy(traces)
    expect = set()
    for tr in bad:
        e = tr["ev"][len(tr["ev"]) // 2]
        e["bytes"][-1] ^= 1
        expect.add(tr["id"])
    v, _ = layout.validate(bad)
    report("TraceLayout rejects every trace with one flipped byte", all(v[i] for i in expect), str({k: bool(f) for k, f in v.items()}))
    bad = copy.deepcopy(traces)
    expect = set()
    for tr in bad:
        if tr["kind"] in ("bloom", "cbloom", "cms"):
            tr["ev"][-1]["ans"][0] += 1
            expect.add(tr["id"])
    v, _ = layout.validate(bad)
    report("TraceLayout (reader) rejects a corrupted library answer", all(any(c[0] == "C06.reader" for c in v[i]) for i in expect))
    bad = copy.deepcopy(traces)
    for tr in bad:
        tr["ev"][-1]["bytes"] = tr["ev"][-1]["bytes"][:-3]       # a truncated file: the trace spec must give a verdict, not stop with an evaluation error
    v, _ = layout.validate(bad)
    report("TraceLayout is total: a truncated export is rejected by verdict (no TLC evaluation error)", all(v[tr["id"]] for tr in bad))
    # 2. HashMemo
    from .engines import hashes

    tr = hashes.record_traces(seed, 4, 12)
    v, _ = hashes.validate_traces(tr)
    report("HashMemo accepts the recorded call traces", all(not f for f in v.values()))
    bad = copy.deepcopy(tr)
    expect = set()
    for t_ in bad:
        seen = set()
        for e in t_["ev"]:
            k = (e["s"], tuple(e["mk"]))
            if e["r"] and (k in seen or e["ref"]):  # a repeated (strategy, key) pair, or a call with a reference value
                e["r"][0][0] ^= 1
                expect.add(t_["id"])
                break
            seen.add(k)
    v, _ = hashes.validate_traces(bad)
    report("HashMemo rejects a trace with one corrupted limb in a repeated or reference-checked call", bool(expect) and all(v[i] for i in expect), str(v))
    # 3. spec -> code: a corrupted expected observation is a violation, a missing scripted choice is drift
    from .engines import qf

    t = Tally("C04")
    ctx = qf.Ctx(t, {"univ": "A"})
    edge = {"c": {"q": 3, "auto": False}, "h": [["add", [0, 5]]], "a": ["add", [4, 5]], "e": {"S": [[0, 5], [4, 5]], "q": 3, "cnt": 2, "err": False}, "lay": []}
    ctx.edge(edge)
    good = not t.violations
    e2 = copy.deepcopy(edge)
    e2["e"]["S"] = [[0, 5]]
    ctx.edge(e2)
    ctx.close()
    report("S2C (quotient filter): true expectation accepted, corrupted expectation rejected", good and bool(t.violations), str(sorted({v.clause for v in t.violations})))
    from .engines import cuckoo

    t = Tally("C03")
    p = dict(fp={"a": 2, "b": 3, "e": 4}, altvals=[0], bs=1, ms=2, counting=False, cap0s=[1], autos=[False], maxcap=1, maxdepth=3)
    ctx = cuckoo.Ctx(t, p)
    edge = {"c": {"cap": 1, "auto": False, "alt": {"2": 0, "3": 0, "4": 0}}, "h": [[["add", "a"], []]], "a": ["add", "b"], "ch": [0, 0, 0],
            "e": {"cap": 1, "tbl": [[[2, 1]]], "n": 1, "uniq": 1, "out": {"2": 1, "3": 0, "4": 0}, "err": True, "ret": 0}}
    ctx.edge(edge)
    d0 = t.drift
    e2 = copy.deepcopy(edge)
    e2["ch"] = [0]  # two scripted slot choices removed
    ctx.edge(e2)
    report("S2C (cuckoo): full choice sequence conforms, a shortened one is reported as drift", d0 == 0 and t.drift > 0, f"drift {d0} -> {t.drift}")
    # 3b. the repository's own tests as traces: accepted as recorded; one flipped answer / one dropped call is rejected
    from .engines import repotests, scale

    rt, rc, _ = repotests.record("tests/quotientfilter_test.py")
    rt = [t for t in rt if t["kind"] == "qf"][:6]
    for i, t in enumerate(rt):
        t["id"] = i
    v, _ = scale.validate(rt)
    report("TraceScale accepts the traces recorded from tests/quotientfilter_test.py", bool(rt) and all(not f for f in v.values()), str({k: f for k, f in v.items() if f}))
    bad = copy.deepcopy(rt)
    for t in bad:
        adds = [i for i, e in enumerate(t["ev"]) if e["op"] == "add"]
        del t["ev"][adds[len(adds) // 2]]          # a call the recorder "missed": the counts no longer add up
    v, _ = scale.validate(bad)
    report("TraceScale rejects a repository-test trace with one call removed", bool(bad) and all(v[t["id"]] for t in bad))
    # 4. vacuity: every clause recorded in the evidence files was evaluated at least once
    vac = []
    for f in sorted(EVIDENCE.glob("C*.json")):
        ev = json.loads(f.read_text())
        for c, d in ev["coverage"].get("clauses", {}).items():
            if d["evaluated"] == 0:
                vac.append(c)
        if ev["coverage"].get("distinct_nontrivial", 0) < 2:
            vac.append(f"{ev['property_id']}: distinct_nontrivial < 2")
    report("no vacuous clause in the evidence files", not vac, str(vac))
    return 0 if ok else 1
