"""C16 with the real limits: histories with amounts around 2^31, 2^32, 2^63, 2^64 recorded from CountingBloomFilter and
CountMinSketch (limit constants untouched) and validated by TLC in arbitrary-precision limb arithmetic (spec/TraceSat.tla)."""
import json
import os
import random as _random
import struct

from ..core import Tally  # noqa: F401
from .. import tlc
from .bloomfam import GEOM, make_hash

ENGINE = "saturation"
B = 32768
AMOUNTS = [1, 2, 3, 2**31 - 2, 2**31 - 1, 2**31, 2**31 + 1, 2**32 - 2, 2**32 - 1, 2**32, 2**32 + 1, 2**63 - 1, 2**63, 2**64 - 1, 2**64, 2**64 + 5]


def num(n):
    neg = n < 0
    n = abs(n)
    mag = []
    while n:
        mag.append(n % B)
        n //= B
    return {"neg": neg, "mag": mag}


def record(seed, ntraces, nev, nwide=0):
    import probables as P
    import probables.blooms.countingbloom as cbm
    import probables.constants as C
    import probables.countminsketch.countminsketch as cmm

    cbm.UINT32_T_MAX, cbm.UINT64_T_MAX = C.UINT32_T_MAX, C.UINT64_T_MAX
    cmm.INT32_T_MAX, cmm.INT32_T_MIN, cmm.INT64_T_MAX, cmm.INT64_T_MIN = C.INT32_T_MAX, C.INT32_T_MIN, C.INT64_T_MAX, C.INT64_T_MIN
    rnd = _random.Random(seed)
    traces = []
    tmpdir = tlc.new_scratch("sat")
    keys = ["a", "b", "c"]
    for ti in range(ntraces):
        kind = "cbloom" if ti % 2 == 0 else "cms"
        wide = ti < nwide      # a few wide structures: block-wise merge code only shows past 1024 / 8192 cells
        if kind == "cbloom" and wide:
            M, K = rnd.choice([(1918, 7), (2876, 7)])     # GEOM below supplies the constructor arguments
            table = {k: tuple(rnd.randint(0, 5 * M) for _ in range(K)) for k in keys}
            hf = make_hash(table)
            est, fpr = {1918: (200, 0.01), 2876: (300, 0.01)}[M]
            mk = lambda: P.CountingBloomFilter(est_elements=est, false_positive_rate=fpr, hash_function=hf)  # noqa
            assert mk().number_bits == M and mk().number_hashes == K
            pos = [[table[k][i] % M for i in range(K)] for k in keys]
            w, d = M, 1
            cells_of = lambda o: list(o.bloom)  # noqa
        elif kind == "cms" and wide:
            W, D = rnd.choice([(3000, 3), (4500, 2)])
            table = {k: tuple(rnd.randint(0, 5 * W) for _ in range(D)) for k in keys}
            hf = make_hash(table)
            mk = lambda: P.CountMinSketch(width=W, depth=D, hash_function=hf)  # noqa
            pos = [[(table[k][i] % W) + i * W for i in range(D)] for k in keys]
            w, d = W, D
            cells_of = lambda o: list(struct.unpack(f"{W * D}i", bytes(o)[: 4 * W * D]))  # noqa
        elif kind == "cbloom":
            M, K = rnd.choice([(3, 2), (4, 3), (5, 2), (8, 2)])
            table = {k: tuple(rnd.randint(0, 2 * M) for _ in range(K)) for k in keys}
            if rnd.random() < 0.5:
                table["a"] = tuple([rnd.randint(0, 2 * M)] * K)  # coinciding positions
            hf = make_hash(table)
            est, fpr = GEOM[(M, K)]
            mk = lambda: P.CountingBloomFilter(est_elements=est, false_positive_rate=fpr, hash_function=hf)  # noqa
            pos = [[table[k][i] % M for i in range(K)] for k in keys]
            w, d = M, 1
            cells_of = lambda o: list(o.bloom)  # noqa
        else:
            W, D = rnd.choice([(2, 2), (3, 2), (1, 1), (2, 3)])
            table = {k: tuple(rnd.randint(0, 2 * W) for _ in range(D)) for k in keys}
            hf = make_hash(table)
            mk = lambda: P.CountMinSketch(width=W, depth=D, hash_function=hf)  # noqa
            pos = [[(table[k][i] % W) + i * W for i in range(D)] for k in keys]
            w, d = W, D
            cells_of = lambda o: list(struct.unpack(f"{W * D}i", bytes(o)[: 4 * W * D]))  # noqa
        obj = mk()
        outst = {k: 0 for k in keys}  # counting Bloom: only legitimate removals (amount <= outstanding additions), as in C08
        tr = {"id": ti, "kind": kind, "w": w, "d": d, "pos": pos, "ev": [], "table": {k: list(v) for k, v in table.items()}}
        for _ in range(nev):
            r = rnd.random()
            k = rnd.randrange(len(keys))
            a = rnd.choice(AMOUNTS)
            ev = {"op": "add", "k": k + 1, "a": num(a), "ret": num(0), "cells": [], "total": num(0), "other": {"cells": [], "total": num(0)}, "raised": False, "rt": True, "other_same": True,
                  "amount": a, "key": keys[k]}
            try:
                if r < 0.55 or (kind == "cbloom" and r < 0.85 and outst[keys[k]] == 0):
                    ret = obj.add(keys[k], a)
                    outst[keys[k]] += a
                elif r < 0.85:
                    ev["op"] = "rem"
                    if kind == "cbloom":
                        a = rnd.choice([x for x in AMOUNTS if x <= outst[keys[k]]])
                        ev["a"], ev["amount"] = num(a), a
                        outst[keys[k]] -= a
                    ret = obj.remove(keys[k], a)
                elif r < 0.95 and kind == "cms":
                    ev["op"] = "join"
                    ev["k"] = 0
                    other = mk()
                    for _ in range(rnd.randint(1, 3)):
                        kk = rnd.randrange(len(keys))
                        aa = rnd.choice(AMOUNTS[:11])
                        (other.add if rnd.random() < 0.6 else other.remove)(keys[kk], aa)
                    ev["other"] = {"cells": [num(c) for c in cells_of(other)], "total": num(other.elements_added)}
                    b_other = bytes(other)
                    obj.join(other)
                    ev["other_same"] = bytes(other) == b_other
                    ret = 0
                elif r < 0.95 and kind == "cbloom":
                    ev["op"] = "union"
                    ev["k"] = 0
                    other = mk()
                    for _ in range(rnd.randint(1, 3)):
                        other.add(keys[rnd.randrange(len(keys))], rnd.choice(AMOUNTS[:11]))
                    ev["other"] = {"cells": [num(c) for c in cells_of(other)], "total": num(other.elements_added)}
                    b_self, b_other = bytes(obj), bytes(other)
                    res = obj.union(other) if rnd.random() < 0.5 else other.union(obj)
                    ev["other_same"] = bytes(other) == b_other and bytes(obj) == b_self
                    ev.update(ret=num(0), cells=[num(c) for c in cells_of(res)], total=num(obj.elements_added))
                    tr["ev"].append(ev)
                    continue
                else:
                    ev["op"] = "clear"
                    ev["k"] = 0
                    obj.clear()
                    outst = {k: 0 for k in keys}
                    ret = 0
            except Exception as exc:  # noqa
                ev["raised"] = True
                ev["error"] = repr(exc)
                tr["ev"].append(ev)
                break
            ev["ret"] = num(ret if ret is not None else 0)
            ev["cells"] = [num(c) for c in cells_of(obj)]
            ev["total"] = num(obj.elements_added)
            try:
                data = bytes(obj)
                ch = rnd.choice(["bytes", "bytes", "file"] + (["hex"] if kind == "cbloom" else []))
                if ch == "bytes":
                    g = type(obj).frombytes(data, hash_function=hf)
                elif ch == "hex":
                    g = type(obj)(hex_string=obj.export_hex(), hash_function=hf)
                else:
                    path = os.path.join(tmpdir, "rt.dat")
                    obj.export(path)
                    g = type(obj)(filepath=path, hash_function=hf)
                # the reloaded structure exports alike, counts alike and answers alike (a cell at or beyond 2^31 must not come back negative)
                ev["rt"] = bytes(g) == data and g.elements_added == obj.elements_added and all(g.check(k) == obj.check(k) for k in keys) and cells_of(g) == cells_of(obj)
                if ev["rt"] and rnd.random() < 0.3:
                    obj = g          # the history continues on the reloaded object (identity for the model)
            except Exception as exc:  # noqa
                ev["rt"] = False
                ev["error"] = repr(exc)
            tr["ev"].append(ev)
        traces.append(tr)
    return traces


def validate(traces, timeout=1200):
    slim = [{"id": tr["id"], "kind": tr["kind"], "w": tr["w"], "d": tr["d"], "pos": tr["pos"],
             "ev": [{k: e[k] for k in ("op", "k", "a", "ret", "cells", "total", "other", "raised", "rt", "other_same")} for e in tr["ev"]]} for tr in traces]
    verdicts = {}

    def on_json(j):
        if isinstance(j, dict) and "verdict" in j:
            verdicts[j["verdict"]] = j["fails"]

    cfg = "INIT Init\nNEXT Next\nINVARIANT LimitSanity\nCHECK_DEADLOCK FALSE\n"
    r = tlc.run_tlc("TraceSat", cfg, workers=1, timeout=timeout, on_json=on_json, files={"traces.json": json.dumps(slim)})
    if r.invariant_violations:
        raise tlc.MachineryError("TraceSat: limb arithmetic sanity check failed")
    if len(verdicts) != len(traces):
        raise tlc.MachineryError(f"TraceSat: {len(verdicts)} verdicts for {len(traces)} traces\n" + "\n".join(r.tail[-25:]))
    return verdicts, r


def run(focus, tier, seed):
    total = Tally(focus)
    ntr, nev, nb = (120, 8, 8) if tier == "quick" else (3000, 10, 15)
    traces = record(seed + 1616, ntr, nev, nwide=8 if tier == "quick" else 40)
    import concurrent.futures as cf

    chunks = [traces[i::nb] for i in range(nb)]
    with cf.ThreadPoolExecutor(max_workers=nb) as ex:
        results = list(ex.map(validate, chunks))
    bytr = {tr["id"]: tr for tr in traces}
    for verdicts, r in results:
        d = r.as_dict()
        d.update(spec="TraceSat", mode="trace-validation")
        total.mc.append(d)
        for tid, fails in verdicts.items():
            tr = bytr[tid]
            total.c2s += 1
            total.evaluations += len(tr["ev"])
            lim = {2**31 - 1, -(2**31), 2**32 - 1, 2**63 - 1, -(2**63), 2**64 - 1}
            for i, e in enumerate(tr["ev"]):
                vals = [(-1 if c["neg"] else 1) * sum(m * B**j for j, m in enumerate(c["mag"])) for c in e["cells"]]
                tot = (-1 if e["total"]["neg"] else 1) * sum(m * B**j for j, m in enumerate(e["total"]["mag"]))
                if any(v in lim for v in vals) or tot in lim:
                    total.nontriv(hash((tid, i)))
            for c in ("C12.cells", "C13.operands_unchanged", "C19.operand_unchanged"):
                total.ok(c.split(".")[0], c + ".real_limits", sum(1 for e in tr["ev"] if e["op"] in ("union", "join")))
            for c in ("C16.returns", "C16.pinned_value", "C16.no_half_update", "C16.total_pinned", "C16.exportable", "C16.union_clamped", "C16.operand_unchanged"):
                total.ok("C16", c + ".real_limits", len(tr["ev"]))
            total.ok("C06", "C06.cells.real_limits", len(tr["ev"]))
            for clause, idx in fails:
                total.fail(clause.split(".")[0], clause + ".real_limits", ENGINE,
                           {"trace": {k: tr[k] for k in ("kind", "w", "d", "pos", "table")}, "events": [{k: e.get(k) for k in ("op", "key", "amount", "error", "raised", "rt")} for e in tr["ev"][:idx]]},
                           {"kind": tr["kind"], "op": tr["ev"][idx - 1]["op"]})
    total.sample({"kind": traces[0]["kind"], "events": [{k: e.get(k) for k in ("op", "key", "amount")} for e in traces[0]["ev"][:5]]})
    total.rules.append("TraceSat: seeded random histories with amounts in {1,2,3, 2^31-2..2^31+1, 2^32-2..2^32+1, 2^63-1, 2^63, 2^64-1, 2^64, 2^64+5} on the real "
                       "classes with the real limits, validated by TLC in limb arithmetic; non-trivial = a step after which a cell or the total sits at a storage limit")
    total.exhaustive = False
    return total
