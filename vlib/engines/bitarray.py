"""C20: Bitarray.  Spec: spec/Bitarray.tla.  Exhaustive TLC graph (all 2^n states x all operations,
indices from -2 to n+1, assignment values -1..2) replayed into probables.utilities.Bitarray."""
from ..core import Tally  # noqa: F401  (sys.path set up by core)
from .. import s2c

ENGINE = "bitarray"
MOD = "vlib.engines.bitarray"


def mc_module(n, idxlo=-2, vals=(-1, 0, 1, 2)):
    return (
        "MCBitarray",
        f"""---- MODULE MCBitarray ----
EXTENDS Bitarray
cIdxLo == {idxlo}
cVals == {{{", ".join(str(v) for v in vals)}}}
====
""",
    )


def cfg(n, emit=True, idxhi=None, hdepth=0):
    return f"""CONSTANTS
  N = {n}
  IdxLo <- cIdxLo
  IdxHi = {n + 1 if idxhi is None else idxhi}
  Vals <- cVals
  HDepth = {hdepth}
INIT Init
NEXT Next
{"VIEW ViewH" if hdepth else "VIEW View"}
{"CONSTRAINT HBound" if hdepth else ""}
INVARIANT TypeOK
INVARIANT Refines
INVARIANT PopOK
PROPERTY Frame
{"ACTION_CONSTRAINT Emit" if emit else ""}
CHECK_DEADLOCK FALSE
"""


class Ctx:
    def __init__(self, tally, params):
        self.t = tally
        from probables.utilities import Bitarray

        self.cls = Bitarray

    def close(self):
        pass

    @staticmethod
    def apply(ba, o):
        """returns (raised, ret)"""
        nm, i, v = o
        try:
            if nm == "set":
                ba.set_bit(i)
            elif nm == "clr":
                ba.clear_bit(i)
            elif nm == "asg":
                ba[i] = v
            elif nm == "get":
                return False, int(ba[i])
            elif nm == "chk":
                return False, int(ba.check_bit(i))
            elif nm == "isset":
                r = ba.is_bit_set(i)
                return False, (int(r) if isinstance(r, bool) else "nonbool")
            elif nm == "clear":
                ba.clear()
            elif nm == "pop":
                return False, ("pop", ba.num_bits_set())
            elif nm == "str":
                return False, ("str", ba.as_string())
            return False, -1
        except Exception as exc:  # any error counts as a rejection
            return True, type(exc).__name__

    @staticmethod
    def observe(ba, n):
        bits = []
        for i in range(n):
            bits.append(int(ba.check_bit(i)))
        return {"bits": bits, "pop": ba.num_bits_set(), "str": ba.as_string(), "bytes": list(ba.bitarray), "size": ba.size}

    def edge(self, e):
        t = self.t
        n = e["n"]
        ba = self.cls(n)
        for o in e["h"]:
            self.apply(ba, o)
        before = self.observe(ba, n)
        o = e["a"]
        raised, ret = self.apply(ba, o)
        after = self.observe(ba, n)
        exp = e["e"]
        t.evaluations += 1
        t.s2c += 1

        def rp(extra=None):
            d = {"n": n, "history": e["h"], "op": o, "expected": exp, "observed": after, "raised": raised, "ret": ret}
            d.update(extra or {})
            return d

        sig = {"op": o[0]}
        P = "C20"
        if exp["rej"]:
            t.check(raised, P, "C20.reject_raises", ENGINE, rp, sig)
            t.check(after == before, P, "C20.reject_no_change", ENGINE, lambda: rp({"before": before}), sig)
        else:
            t.check(not raised, P, "C20.accepts_valid", ENGINE, rp, sig)
        t.check(after["bits"] == exp["bits"], P, "C20.frame_and_effect", ENGINE, rp, sig)
        if not exp["rej"] and not raised:
            if o[0] in ("get", "chk", "isset"):
                t.check(ret == exp["ret"], P, "C20.read_last_write", ENGINE, rp, sig)
            if o[0] == "pop":
                t.check(ret == ("pop", exp["pop"]), P, "C20.popcount", ENGINE, rp, sig)
            if o[0] == "str":
                t.check(ret == ("str", "".join(map(str, exp["bits"]))), P, "C20.string", ENGINE, rp, sig)
        t.check(after["pop"] == exp["pop"], P, "C20.popcount", ENGINE, rp, sig)
        t.check(after["str"] == "".join(map(str, exp["bits"])), P, "C20.string", ENGINE, rp, sig)
        t.check(after["size"] == n, P, "C20.length_fixed", ENGINE, rp, sig)
        if after["bytes"] != exp["bytes"]:
            t.add_drift(ENGINE, {"n": n, "history": e["h"], "op": o, "expected_bytes": exp["bytes"], "observed_bytes": after["bytes"]})
        i = o[1]
        if o[0] in ("set", "clr", "asg", "get", "chk", "isset") and (i < 0 or i >= n or i >= 8 * (n // 8)):
            t.nontriv(("ba", n, tuple(before["bits"]), tuple(o)))
        t.sample({"n": n, "history": e["h"][-4:], "op": o, "expected": exp})


def run(focus, tier, seed):
    if tier == "quick":
        sizes = [1, 2, 3, 5, 7, 8, 9]
        sims = [(16, 1500), (17, 1500)]
    else:
        sizes = [1, 2, 3, 4, 5, 6, 7, 8, 9, 10, 11, 12]
        sims = [(15, 8000), (16, 8000), (17, 8000), (24, 4000), (33, 3000)]
    jobs = [dict(module=mc_module(n), cfg=cfg(n), workers=1, timeout=1200) for n in sizes]
    tally, results = s2c.run_s2c(MOD, focus, jobs, tlc_parallel=6)
    for n, r in zip(sizes, results):
        d = r.as_dict()
        d.update(spec="Bitarray", constants={"N": n}, mode="exhaustive+emit")
        tally.mc.append(d)
        if not r.ok:
            for inv in r.invariant_violations:
                tally.fail("C20", f"C20.model.{inv}", ENGINE, {"tlc": r.tail[-30:], "n": n}, {"model": inv})
    # every HISTORY of up to 4 (thorough: 5) operations - reads, counts, string forms and clear() included - on two positions of a tiny
    # array and on the two positions around the first byte boundary
    hd = 4 if tier == "quick" else 5
    hjobs = [dict(module=mc_module(2, 0, (0, 1)), cfg=cfg(2, True, 1, hd), workers=1, timeout=1200),
             dict(module=mc_module(9, 7, (0, 1)), cfg=cfg(9, True, 8, hd), workers=1, timeout=1200)]
    t3, r3 = s2c.run_s2c(MOD, focus, hjobs, tlc_parallel=2)
    for n, r in zip((2, 9), r3):
        d = r.as_dict()
        d.update(spec="Bitarray", constants={"N": n, "view": "histories", "depth": hd}, mode="exhaustive over histories + emit")
        t3.mc.append(d)
    tally.merge(t3)
    # larger sizes: TLC simulation schedules (not exhaustive)
    sjobs = [dict(module=mc_module(n), cfg=cfg(n), workers=1, simulate=max(1, num // 40), depth=40, seed=seed + n, timeout=600) for n, num in sims]
    t2, r2 = s2c.run_s2c(MOD, focus, sjobs, tlc_parallel=6)
    for (n, num), r in zip(sims, r2):
        d = r.as_dict()
        d.update(spec="Bitarray", constants={"N": n}, mode="simulate")
        d["distinct"] = 0
        d["generated"] = 0
        t2.mc.append(d)
    t2.exhaustive = True
    tally.merge(t2)
    tally.extra["exhaustive_sizes"] = sizes
    tally.extra["simulated_sizes"] = [n for n, _ in sims]
    tally.rules.append(
        "Bitarray: every transition TLC generates (all 2^n bit vectors x every operation with index -2..n+1 and value -1..2) is replayed "
        "into the real class; non-trivial = distinct (state, op) whose index is out of range or lies in the last partial byte"
    )
    tally.assumptions.append("sizes above 12 are driven by TLC -simulate schedules, not exhaustively")
    return tally
