"""Code -> spec at realistic scale (spec/TraceScale.tla): long histories on structures of hundreds to thousands of cells with
real string / bytes keys and the library's own hash functions, validated by TLC against a sparse abstract state.
Serves C01 C02 C04 C08 C09 C10 C14 (clause names carry their property)."""
import json
import os
import random as _random
import shutil
import struct
import tempfile

from ..core import Tally  # noqa: F401
from .. import tlc

ENGINE = "scale"
KINDS = ["bloom", "disk", "cbloom", "cms", "ebf", "rbf", "qf"]
SERVES = {"C01": ["bloom", "disk", "ebf"], "C02": ["cms"], "C04": ["qf"], "C08": ["cbloom"], "C09": ["ebf"], "C10": ["rbf"],
          "C14": ["bloom", "disk", "cbloom", "cms", "ebf", "rbf", "qf"]}


def mkkeys(rnd, n):
    out = []
    words = ["alpha", "beta", "gamma", "delta", "user", "item", "key", "http://example.org/", "über", "中文", "id"]
    while len(out) < n:
        w = rnd.choice(words) + str(rnd.randint(0, 10**6))
        k = w.encode("utf-8") if rnd.random() < 0.3 else w
        if k not in out:
            out.append(k)
    return out


def bits_of(data, m):
    return [i for i in range(m) if (data[i // 8] >> (i % 8)) & 1]


def record_one(rnd, kind, ti, nev, tmp):
    import probables as P
    from probables.hashes import default_md5, fnv_1a_32

    tr = {"id": ti, "kind": kind, "m": 1, "k": 1, "w": 1, "d": 1, "est": 1, "qmax": 1, "q": 3, "auto": False, "pos": [], "ev": []}
    hf = rnd.choice([None, None, default_md5])
    nkeys = rnd.randint(40, 160)
    keys = mkkeys(rnd, nkeys)
    path = os.path.join(tmp, f"s{ti}.blm")
    if kind in ("bloom", "disk", "cbloom"):
        est, fpr = rnd.choice([(50, 0.05), (200, 0.01), (120, 0.1), (500, 0.02), (33, 0.001)])
        if kind == "bloom":
            obj = P.BloomFilter(est_elements=est, false_positive_rate=fpr, hash_function=hf)
        elif kind == "disk":
            obj = P.BloomFilterOnDisk(path, est_elements=est, false_positive_rate=fpr, hash_function=hf)
        else:
            obj = P.CountingBloomFilter(est_elements=est, false_positive_rate=fpr, hash_function=hf)
        m, k = obj.number_bits, obj.number_hashes
        tr.update(m=m, k=k, est=est)
        tr["pos"] = [[h % m for h in obj.hashes(key)] for key in keys]
    elif kind == "cms":
        w, d = rnd.choice([(50, 3), (211, 5), (1000, 4), (64, 8)])
        obj = P.CountMinSketch(width=w, depth=d, hash_function=hf)
        tr.update(w=w, d=d)
        tr["pos"] = [[(h % w) + i * w for i, h in enumerate(obj.hashes(key))] for key in keys]
    elif kind in ("ebf", "rbf"):
        est, fpr = rnd.choice([(8, 0.05), (20, 0.05), (13, 0.01), (30, 0.1)])
        qmax = rnd.randint(2, 5)
        if kind == "ebf":
            obj = P.ExpandingBloomFilter(est_elements=est, false_positive_rate=fpr, hash_function=hf)
        else:
            obj = P.RotatingBloomFilter(est_elements=est, false_positive_rate=fpr, max_queue_size=qmax, hash_function=hf)
        probe = P.BloomFilter(est_elements=est, false_positive_rate=fpr, hash_function=hf)
        m, k = probe.number_bits, probe.number_hashes
        tr.update(m=m, k=k, est=est, qmax=qmax)
        tr["pos"] = [[h % m for h in probe.hashes(key)] for key in keys]
    else:
        q = rnd.choice([3, 4, 5, 6, 8])
        auto = rnd.random() < 0.7
        obj = P.QuotientFilter(quotient=q, auto_expand=auto)
        tr.update(q=q, auto=auto)
        tr["pos"] = [[fnv_1a_32(key, 0) >> 16, fnv_1a_32(key, 0) & 0xFFFF] for key in keys]
    out = [0] * nkeys

    def observe_full():
        if kind in ("bloom", "disk"):
            return bits_of(bytes(obj), tr["m"])
        if kind == "cbloom":
            return [[i, c] for i, c in enumerate(obj.bloom) if c]
        if kind == "cms":
            n = tr["w"] * tr["d"]
            return [[i, c] for i, c in enumerate(struct.unpack(f"{n}i", bytes(obj)[: 4 * n])) if c]
        if kind in ("ebf", "rbf"):
            data = bytes(obj)
            size = struct.unpack("Q", data[-28:-20])[0]
            blen = (tr["m"] + 7) // 8
            res, off = [], 0
            for _ in range(size):
                res.append({"n": struct.unpack("Q", data[off:off + 8])[0], "bits": bits_of(data[off + 8:off + 8 + blen], tr["m"])})
                off += 8 + blen
            return res
        return [[h >> 16, h & 0xFFFF] for h in obj.get_hashes()]

    def aux():
        if kind in ("ebf", "rbf"):
            return {"ns": [b["n"] for b in observe_full()], "q": 0}
        if kind == "qf":
            return {"ns": [], "q": obj.quotient}
        return {"ns": [], "q": 0}

    for step in range(nev):
        i = rnd.randrange(nkeys)
        key = keys[i]
        ev = {"op": "add", "k": i + 1, "a": 1, "ret": 0}
        r = rnd.random()
        try:
            if kind in ("bloom", "disk"):
                if r < 0.02:
                    ev.update(op="clear", k=0)
                    obj.clear()
                    out = [0] * nkeys
                elif r < 0.07:
                    ev.update(op="rt", k=0)
                    if kind == "disk":
                        obj.close()
                        obj = P.BloomFilterOnDisk(path, hash_function=hf)
                    else:
                        ch = rnd.choice(["bytes", "hex", "file"])
                        if ch == "bytes":
                            obj = P.BloomFilter.frombytes(bytes(obj), hash_function=hf)
                        elif ch == "hex":
                            obj = P.BloomFilter(hex_string=obj.export_hex(), hash_function=hf)
                        else:
                            obj.export(path + ".x")
                            obj = P.BloomFilter(filepath=path + ".x", hash_function=hf)
                else:
                    obj.add(key)
                    out[i] += 1
            elif kind in ("cbloom", "cms"):
                a = rnd.choice([1, 1, 2, 3, 7])
                if r < 0.3 and out[i] > 0:
                    a = rnd.randint(1, out[i])
                    ev.update(op="rem", a=a)
                    ev["ret"] = obj.remove(key, a)
                    out[i] -= a
                elif r < 0.33:
                    ev.update(op="rt", k=0)
                    obj = type(obj).frombytes(bytes(obj), hash_function=hf)
                else:
                    ev.update(op="add", a=a)
                    ev["ret"] = obj.add(key, a)
                    out[i] += a
            elif kind in ("ebf", "rbf"):
                if r < 0.02:
                    ev.update(op="push", k=0)
                    obj.push()
                elif r < 0.04 and kind == "rbf" and obj.current_queue_size > 1:
                    ev.update(op="pop", k=0)
                    obj.pop()
                elif r < 0.08:
                    ev.update(op="rt", k=0)
                    if kind == "ebf":
                        obj = P.ExpandingBloomFilter.frombytes(bytes(obj), hash_function=hf)
                    else:
                        obj = P.RotatingBloomFilter.frombytes(bytes(obj), max_queue_size=tr["qmax"], hash_function=hf)
                else:
                    force = rnd.random() < 0.1
                    ev.update(op="add", a=1 if force else 0)
                    obj.add(key, force)
            else:
                if r < 0.25:
                    ev.update(op="rem")
                    obj.remove(key)
                elif r < 0.28:
                    nq = rnd.randint(3, 10)
                    if obj.elements_added < (1 << nq) * 0.8:
                        ev.update(op="rsz", k=0, a=nq)
                        obj.resize(nq)
                    else:
                        ev.update(op="noop", k=0)
                elif not tr["auto"] and obj.elements_added >= obj.num_elements - 1:
                    ev.update(op="rem")
                    obj.remove(key)
                else:
                    obj.add(key)
        except Exception as exc:  # noqa
            ev["raised"] = repr(exc)
            tr["ev"].append(dict(ev, n=0, probes=[], full=[], aux={"ns": [], "q": 0}))
            break
        ev["ret"] = int(ev["ret"] or 0)
        ev["n"] = obj.elements_added
        idxs = [i] + [rnd.randrange(nkeys) for _ in range(3)]
        ev["probes"] = [[j + 1, int(obj.check(keys[j]))] for j in idxs]
        ev["full"] = observe_full() if (step % 23 == 22 or step == nev - 1) else []
        ev["aux"] = aux()
        tr["ev"].append(ev)
    if kind == "disk":
        obj.close()
    return tr


CFG = "INIT Init\nNEXT Next\nCHECK_DEADLOCK FALSE\n"


def validate(traces, timeout=1800):
    slim = []
    for tr in traces:
        t2 = {k: v for k, v in tr.items() if k != "ev"}
        t2["ev"] = [{k: e[k] for k in ("op", "k", "a", "ret", "n", "probes", "full", "aux")} for e in tr["ev"] if not e.get("raised")]
        slim.append(t2)
    verdicts = {}

    def on_json(j):
        if isinstance(j, dict) and "verdict" in j:
            verdicts[j["verdict"]] = j["fails"]

    r = tlc.run_tlc("TraceScale", CFG, workers=1, timeout=timeout, on_json=on_json, files={"traces.json": json.dumps(slim)}, heap="6g")
    if len(verdicts) != len(traces):
        raise tlc.MachineryError(f"TraceScale: {len(verdicts)} verdicts for {len(traces)} traces\n" + "\n".join(r.tail[-25:]))
    return verdicts, r


def run(focus, tier, seed):
    total = Tally(focus)
    kinds = SERVES.get(focus, KINDS)
    per_kind, nev, nb = (3, 120, 7) if tier == "quick" else (40, 300, 14)
    if focus == "C14" and tier == "quick":
        per_kind = 2
    rnd = _random.Random(seed + 9001)
    tmp = tempfile.mkdtemp(prefix="scale-", dir=tlc.scratch_root())
    traces = []
    for kind in kinds:
        for _ in range(per_kind):
            traces.append(record_one(rnd, kind, len(traces), nev, tmp))
    shutil.rmtree(tmp, ignore_errors=True)
    import concurrent.futures as cf

    nb = min(nb, len(traces))
    chunks = [traces[i::nb] for i in range(nb)]
    with cf.ThreadPoolExecutor(max_workers=nb) as ex:
        results = list(ex.map(validate, chunks))
    bytr = {tr["id"]: tr for tr in traces}
    for verdicts, r in results:
        d = r.as_dict()
        d.update(spec="TraceScale", mode="trace-validation")
        total.mc.append(d)
        for tid, fails in verdicts.items():
            tr = bytr[tid]
            total.c2s += 1
            total.evaluations += len(tr["ev"])
            for e in tr["ev"]:
                if e.get("raised"):
                    prop = {"qf": "C04", "cms": "C02", "cbloom": "C08", "ebf": "C09", "rbf": "C10"}.get(tr["kind"], "C01")
                    total.fail(prop, f"{prop}.call_raises.scale", ENGINE, {"kind": tr["kind"], "raised": e["raised"], "events": len(tr["ev"])}, {"kind": tr["kind"]})
            grow = sum(1 for a, b in zip(tr["ev"], tr["ev"][1:]) if (a.get("aux", {}).get("q"), len(a.get("aux", {}).get("ns", []))) != (b.get("aux", {}).get("q"), len(b.get("aux", {}).get("ns", []))))
            total.nontriv(hash((tid, tr["kind"], grow, len(tr["ev"]))))
            for clause, idx in fails:
                if clause.startswith("DRIFT"):
                    total.add_drift(ENGINE, {"trace": tid, "kind": tr["kind"], "clause": clause, "event": idx})
                    continue
                prop = clause.split(".")[0]
                total.fail(prop, clause + ".scale", ENGINE, {"kind": tr["kind"], "config": {k: tr[k] for k in ("m", "k", "w", "d", "est", "qmax", "q", "auto")},
                                                             "event_index": idx, "events": [{k: e.get(k) for k in ("op", "k", "a", "ret", "n", "probes")} for e in tr["ev"][max(0, idx - 6):idx]]},
                           {"kind": tr["kind"]})
            for prop, cl in (("C01", "C01.present"), ("C02", "C02.bounds"), ("C04", "C04.member"), ("C08", "C08.cb_lower"), ("C09", "C09.cap"), ("C10", "C10.window"), ("C14", "C14.count")):
                total.ok(prop, cl + ".scale", len(tr["ev"]))
    total.sample({"kind": traces[0]["kind"], "config": {k: traces[0][k] for k in ("m", "k", "w", "d", "est", "qmax", "q", "auto")}, "keys": len(traces[0]["pos"]),
                  "events": [{k: e.get(k) for k in ("op", "k", "a", "n")} for e in traces[0]["ev"][:6]]})
    total.rules.append("Scale: seeded long histories (120-300 events, 40-160 real text/bytes keys, default FNV-1a or md5) on realistically sized structures incl. reloads, "
                       "growth, rotation and automatic resizes, validated by TLC against a sparse abstract state; non-trivial = one trace (each has collisions and growth events)")
    total.exhaustive = False
    return total
