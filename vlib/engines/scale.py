"""Code -> spec at realistic scale (spec/TraceScale.tla): long histories on structures of hundreds up to ~10^6 cells with
thousands of real string / bytes keys and the library's own hash functions, validated by TLC against a sparse abstract state.
Two families of traces: "long" (one call per event, 100-5000 cells) and "big" (batched additions on structures whose arrays /
tables cross the 4 KiB, 8 KiB, 64 KiB, 1024-bucket and 65536-slot marks, with reloads, unions, growth steps, nearly full tables).
Serves C01 C02 C03 C04 C05 C08 C09 C10 C11 C12 C14 C15 (clause names carry their property)."""
import io
import json
import os
import random as _random
import shutil
import struct
import tempfile
from decimal import Decimal, getcontext

from ..core import vary_buf  # noqa
from ..core import Tally  # noqa: F401
from .. import tlc

ENGINE = "scale"
KINDS = ["bloom", "disk", "cbloom", "cms", "ebf", "rbf", "qf", "cko", "ccko", "hh", "st", "bits"]
SERVES = {"C01": ["bloom", "disk", "ebf"], "C02": ["cms"], "C03": ["cko", "ccko"], "C04": ["qf"], "C05": ["bloom", "disk", "cbloom", "cms", "ebf", "cko", "ccko"],
          "C08": ["cbloom", "ccko"], "C09": ["ebf"], "C10": ["rbf"], "C11": ["disk"], "C12": ["bloom", "disk", "cbloom", "cms"], "C15": ["cko", "ccko"],
          "C13": ["bloom", "disk", "cbloom"],
          "C14": ["bloom", "disk", "cbloom", "cms", "ebf", "rbf", "qf", "cko", "ccko"], "C17": ["hh", "st"], "C20": ["bits"], "C07": ["cko", "ccko"],
          "C19": ["bloom", "disk", "cbloom", "cms", "ebf", "rbf", "qf", "cko", "ccko", "hh"]}
NOAUX = {"ns": [], "q": 0, "lost": 0, "uniq": 0, "dump": 0, "lf": 0}
# "big" configurations: each crosses a block-size mark that a blocked / paged / buffered implementation would care about
BIG = {
    "bloom": [(21020, 0.05), (100000, 0.01), (7000, 0.01), (3500, 0.01), (20000, 0.01)],   # 16384 B (= 4 x 4096), 8407 B, 119814 B, 4194 B, 23963 B
    "disk": [(7000, 0.01), (100000, 0.01), (21020, 0.05), (20000, 0.01)],
    "cbloom": [(3000, 0.01), (5000, 0.02), (1200, 0.05)],                                    # 28756 / 40712 / 7483 counters
    "cms": [(20000, 5), (1024, 8), (5000, 4)],
    "ebf": [(400, 0.01), (1500, 0.05)],
    "rbf": [(400, 0.01), (1500, 0.05)],
    "hh": [(100, 1000, 5), (20, 64, 4)],            # (number of hitters, width, depth)
    "st": [(20, 1000, 5), (5, 50, 3)],              # (threshold, width, depth)
    "bits": [32771, 8192, 65536, 524309, 8191, 32768, 524288],     # Bitarray sizes at and just past 1 KiB, 4 KiB, 8 KiB, 64 KiB of storage
    "cko": [(20000, 4, 500, True), (1000, 3, 300, True, "dflt"), (500, 4, 500, False), (100, 2, 500, True, "er"), (1500, 2, 300, False)],   # > 65536 slots; nearly full with max_swaps > 128; odd bucket size
    "ccko": [(1024, 4, 500, True), (40000, 4, 500, False), (1000, 4, 500, True, "fs4"), (500, 4, 500, False), (100, 2, 500, True, "er"), (1000, 3, 300, True, "dflt")],   # >= 1024 buckets with automatic expansion; > 131072 bins
    "qf": [(8, True), (7, False), (8, False), (7, False), (8, False), (7, False), (9, False), (9, True)],   # dense, nearly full tables: long wrapping clusters
}


def mkkeys(rnd, n, tag=""):
    out, seen = [], set()
    words = ["alpha", "beta", "gamma", "delta", "user", "item", "key", "http://example.org/", "über", "中文", "id", "order/", "mailto:"]
    while len(out) < n:
        w = rnd.choice(words) + tag + str(rnd.randint(0, 10**9))
        k = w.encode("utf-8") if rnd.random() < 0.3 else w
        if k not in seen:
            seen.add(k)
            out.append(k)
    return out


def bits_of(data, m):
    out = []
    for bi in range((m + 7) // 8):
        b = data[bi]
        if b:
            for j in range(8):
                if (b >> j) & 1 and bi * 8 + j < m:
                    out.append(bi * 8 + j)
    return out


class Rec:
    """records one trace; harness-level (oracle-free) clauses are collected in self.hfails as (clause, detail)"""

    def __init__(self, rnd, kind, ti, tmp, big, cfg=None):
        import probables as P

        self.P, self.rnd, self.kind, self.big, self.tmp = P, rnd, kind, big, tmp
        self.tr = {"id": ti, "kind": kind, "m": 1, "k": 1, "w": 1, "d": 1, "est": 1, "qmax": 1, "q": 3, "auto": False, "pos": [], "ev": [], "big": big}
        self.hfails = []
        self.path = os.path.join(tmp, f"s{ti}.dat")
        self.hf = None
        self.fs = 2
        self.dflt = False
        self.cfg = cfg
        self.erand = _random.Random(rnd.getrandbits(32))     # which entry point realises an action (add / add_alt, check / check_alt / in)
        self.pdens = self.erand.choice([1.0, 1.0, 0.3, 0.08]) if not big else 1.0
        self.make()

    # -- construction ----------------------------------------------------------------------------
    def make(self):
        from probables.hashes import default_md5, fnv_1a, fnv_1a_32

        P, rnd, kind, tr, big = self.P, self.rnd, self.kind, self.tr, self.big
        self.hf = rnd.choice([None, None, default_md5]) if kind not in ("qf", "cko", "ccko") else None
        hf = self.hf
        if kind in ("bloom", "disk", "cbloom"):
            if big:   # arrays of 4096*k bytes, > 8 KiB, > 64 KiB
                est, fpr = self.cfg
            else:
                est, fpr = rnd.choice([(50, 0.05), (200, 0.01), (120, 0.1), (500, 0.02), (33, 0.001)])
            self.args = dict(est_elements=est, false_positive_rate=fpr, hash_function=hf)
            if kind == "bloom":
                self.obj = P.BloomFilter(**self.args)
            elif kind == "disk":
                self.obj = P.BloomFilterOnDisk(self.path, **self.args)
            else:
                self.obj = P.CountingBloomFilter(**self.args)
            m, k = self.obj.number_bits, self.obj.number_hashes
            tr.update(m=m, k=k, est=est)
            self.nkeys = min(est, 12000) if big else rnd.randint(40, 160)
            self.posfn = lambda key: [h % m for h in self.obj.hashes(key)]
        elif kind == "cms":
            w, d = self.cfg if big else rnd.choice([(50, 3), (211, 5), (1000, 4), (64, 8), (8, 3), (16, 5), (30, 4)])
            self.args = dict(width=w, depth=d, hash_function=hf)
            self.obj = P.CountMinSketch(**self.args)
            tr.update(w=w, d=d)
            self.nkeys = 4000 if big else rnd.randint(40, 160)
            self.posfn = lambda key: [(h % w) + i * w for i, h in enumerate(self.obj.hashes(key))]
        elif kind in ("ebf", "rbf"):
            est, fpr = self.cfg if big else rnd.choice([(8, 0.05), (20, 0.05), (13, 0.01), (30, 0.1)])
            qmax = rnd.randint(2, 5)
            self.args = dict(est_elements=est, false_positive_rate=fpr, hash_function=hf)
            self.obj = P.ExpandingBloomFilter(**self.args) if kind == "ebf" else P.RotatingBloomFilter(max_queue_size=qmax, **self.args)
            probe = P.BloomFilter(**self.args)
            m, k = probe.number_bits, probe.number_hashes
            tr.update(m=m, k=k, est=est, qmax=qmax)
            self.nkeys = est * 6 if big else rnd.randint(40, 160)
            self.posfn = lambda key: [h % m for h in probe.hashes(key)]
        elif kind in ("hh", "st"):
            par, w, d = self.cfg if big else rnd.choice([(5, 50, 3), (3, 20, 2), (10, 200, 4)])
            self.args = dict(width=w, depth=d, hash_function=hf)
            self.obj = P.HeavyHitters(num_hitters=par, **self.args) if kind == "hh" else P.StreamThreshold(threshold=par, **self.args)
            tr.update(w=w, d=d, est=par)
            self.nkeys = 1500 if big else rnd.randint(30, 120)
            self.posfn = lambda key: [0]
        elif kind == "bits":
            from probables.utilities import Bitarray

            n = self.cfg if big else rnd.choice([70, 257, 1000, 4099])
            self.obj = Bitarray(n)
            tr.update(m=n)
            self.nkeys = 0
            self.posfn = lambda key: [0]
        elif kind in ("cko", "ccko"):
            cls = P.CuckooFilter if kind == "cko" else P.CountingCuckooFilter
            self.er = None
            if big:
                cap, bs, ms, auto = self.cfg[:4]
                mode = self.cfg[4] if len(self.cfg) > 4 else None
            else:
                cap, bs, ms, auto = rnd.choice([(16, 2, 20, True), (64, 4, 50, False), (10, 3, 30, True)])
                mode = rnd.choice([None, None, "fs4", "dflt"])
            self.fs = 4 if mode in ("fs4", "dflt") else rnd.choice([2, 3])
            self.dflt = mode == "dflt"       # constructed with the default fingerprint width: nothing to re-supply after a load
            if mode == "er":     # sized by error rate: the fingerprint width is derived, and must be derived alike after a reload
                self.er = 0.05
                self.obj = cls.init_error_rate(self.er, capacity=cap, bucket_size=bs, max_swaps=ms, auto_expand=auto)
            elif mode == "dflt":
                self.obj = cls(capacity=cap, bucket_size=bs, max_swaps=ms, auto_expand=auto)
            else:
                self.obj = cls(capacity=cap, bucket_size=bs, max_swaps=ms, auto_expand=auto, finger_size=self.fs)
            tr.update(m=cap, k=bs, auto=auto)
            if big:
                self.nkeys = {20000: 45000, 500: 2100, 1024: 16000, 1500: 3100, 1000: 6000, 40000: 30000, 100: 3000}[cap]
            else:
                self.nkeys = rnd.randint(30, 120)
            mask = (1 << self.obj.fingerprint_size_bits) - 1
            classes = {}     # fingerprint -> small class id (fingerprints of 4 bytes do not fit TLC's integers)
            self.posfn = lambda key: [classes.setdefault((fnv_1a(key) & mask) or 1, len(classes) + 1)]
        else:
            q, auto = self.cfg if big else (rnd.choice([3, 4, 5, 6, 7, 8]), rnd.random() < 0.6)
            self.obj = P.QuotientFilter(quotient=q, auto_expand=auto)
            tr.update(q=q, auto=auto)
            self.nkeys = (7000 if auto else (1 << q) - 6) if big else rnd.randint(30, 400)
            self.posfn = lambda key: [fnv_1a_32(key, 0) >> 16, fnv_1a_32(key, 0) & 0xFFFF]
        self.keys = mkkeys(rnd, self.nkeys, str(tr["id"])) if kind not in ("hh", "st") else [k if isinstance(k, str) else k.decode() for k in mkkeys(rnd, self.nkeys, str(tr["id"]))]
        tr["pos"] = [self.posfn(k) for k in self.keys] or [[0]]
        self.out = {}

    # -- observation -----------------------------------------------------------------------------
    def full(self, obj=None):
        obj = obj or self.obj
        kind, tr = self.kind, self.tr
        if kind in ("bloom", "disk"):
            return bits_of(bytes(obj), tr["m"])
        if kind == "cbloom":
            return [[i, c] for i, c in enumerate(obj.bloom) if c]
        if kind == "cms":
            n = tr["w"] * tr["d"]
            return [[i, c] for i, c in enumerate(struct.unpack(f"{n}i", bytes(obj)[: 4 * n])) if c]
        if kind in ("ebf", "rbf"):
            data = bytes(obj)
            size = struct.unpack("Q", data[-28:-20])[0]
            blen = (tr["m"] + 7) // 8
            res, off = [], 0
            for _ in range(size):
                res.append({"n": struct.unpack("Q", data[off:off + 8])[0], "bits": bits_of(data[off + 8:off + 8 + blen], tr["m"])})
                off += 8 + blen
            return res
        if kind in ("cko", "ccko"):
            return []
        if kind in ("hh", "st"):
            idx = {k: i + 1 for i, k in enumerate(self.keys)}
            tab = obj.heavy_hitters if kind == "hh" else obj.meets_threshold
            return [[idx[k], v] for k, v in tab.items()]
        if kind == "bits":
            return bits_of(bytes(obj.bitarray), tr["m"])
        return [[h >> 16, h & 0xFFFF] for h in obj.get_hashes()]

    def aux(self, lost=0):
        kind, obj = self.kind, self.obj
        a = dict(NOAUX, lost=lost)
        if kind in ("ebf", "rbf"):
            data = bytes(obj)
            size = struct.unpack("Q", data[-28:-20])[0]
            blen = (self.tr["m"] + 7) // 8
            a["ns"] = [struct.unpack("Q", data[i * (8 + blen): i * (8 + blen) + 8])[0] for i in range(size)]
        elif kind == "qf":
            a["q"] = obj.quotient
            a["lf"] = int(round(obj.max_load_factor * 10000))
        elif kind == "ccko":
            a["uniq"] = obj.unique_elements
        return a

    # one model action, several entry points of the code: add(key) / add_alt(hashes(key)), check / check_alt / `in`
    def hashes_of(self, key):
        obj, kind = self.obj, self.kind
        if kind in ("ebf", "rbf"):
            if getattr(self, "_hprobe", None) is None:
                self._hprobe = self.P.BloomFilter(est_elements=obj.estimated_elements, false_positive_rate=obj.false_positive_rate, hash_function=obj.hash_function)
            return self._hprobe.hashes(key)
        return obj.hashes(key)

    def qf_hash(self, key):
        """the 32-bit hash the quotient filter derives from a key: the recorder builds these filters with the default strategy"""
        from probables.hashes import fnv_1a_32

        return fnv_1a_32(key, 0)

    def do_add(self, key, *a):
        obj, kind = self.obj, self.kind
        if kind in ("cko", "ccko", "bits") or self.erand.random() >= 0.3:
            return obj.add(key, *a)
        if kind == "qf":
            return obj.add_alt(self.qf_hash(key))
        if kind in ("hh", "st"):
            return obj.add_alt(key, self.hashes_of(key), *a)
        return obj.add_alt(self.hashes_of(key), *a)

    def do_rem(self, key, *a):
        obj, kind = self.obj, self.kind
        if kind in ("cko", "ccko", "bits", "hh") or self.erand.random() >= 0.3:
            return obj.remove(key, *a)
        if kind == "qf":
            return obj.remove_alt(self.qf_hash(key))
        if kind == "st":
            return obj.remove_alt(key, self.hashes_of(key), *a)
        return obj.remove_alt(self.hashes_of(key), *a)

    def do_check(self, key):
        obj, kind = self.obj, self.kind
        r = self.erand.random()
        if kind in ("cko", "bloom", "disk", "ebf", "rbf", "qf") and r < 0.15:
            return key in obj
        if kind in ("cko", "ccko", "bits", "hh", "st") or r >= 0.4:
            return obj.check(key)
        if kind == "qf":
            return obj.check_alt(self.qf_hash(key))
        return obj.check_alt(self.hashes_of(key))

    def probes(self, idxs):
        if self.kind in ("hh", "st"):
            return []
        if self.kind == "bits":
            return [[j, int(self.obj.check_bit(j))] for j in idxs]
        return [[j + 1, int(self.do_check(self.keys[j]))] for j in idxs]

    def emit(self, op, ks, a=0, ret=0, probe_idx=(), full=False, lost=0):
        # observation density: in some traces most events are NOT followed by look-ups / dumps, so that state the code keeps between
        # public calls (a memo of the last answer, a cached count) is not refreshed by the observer after every step
        if self.pdens < 1.0 and self.erand.random() >= self.pdens:
            probe_idx, full = (), False
        ev = {"op": op, "ks": [[k + 1, amt] for k, amt in ks], "a": a, "ret": int(ret or 0), "n": getattr(self.obj, "elements_added", 0),
              "probes": self.probes(probe_idx), "full": self.full() if full else [], "aux": self.aux(lost)}
        self.tr["ev"].append(ev)
        return ev

    def hcheck(self, cond, clause, **detail):
        if not cond:
            self.hfails.append((clause, detail))
        self.tr.setdefault("hchecks", {}).setdefault(clause, 0)
        self.tr["hchecks"][clause] += 1

    # -- harness-level, oracle-free clauses at scale ----------------------------------------------
    def roundtrip(self):
        """C05 at scale: every channel carries the same payload; the loaded object answers, counts and re-exports alike."""
        P, kind, obj, hf = self.P, self.kind, self.obj, self.hf
        sample = self.rnd.sample(range(self.nkeys), min(300, self.nkeys))
        want = [obj.check(self.keys[j]) for j in sample]
        data = bytes(obj)
        path = self.path + ".rt"
        loads = []
        try:
            if kind == "disk":
                obj.export(path)
                self.hcheck(open(path, "rb").read() == data, "C05.channels_agree.scale", kind=kind)
                loads = [("ondisk_open", lambda: P.BloomFilterOnDisk(path, hash_function=hf)), ("inmemory_from_file", lambda: P.BloomFilter(filepath=path, hash_function=hf))]
            else:
                obj.export(path)
                bio = io.BytesIO()
                obj.export(bio)
                self.hcheck(open(path, "rb").read() == data == bio.getvalue(), "C05.channels_agree.scale", kind=kind)
                cls = type(obj)
                if kind in ("bloom", "cbloom"):
                    hx = obj.export_hex()
                    loads = [("frombytes", lambda: cls.frombytes(data, hash_function=hf)), ("filepath", lambda: cls(filepath=path, hash_function=hf)),
                             ("hex", lambda: cls(hex_string=hx, hash_function=hf))]
                elif kind == "cms":
                    loads = [("frombytes", lambda: cls.frombytes(data, hash_function=hf)), ("filepath", lambda: cls(filepath=path, hash_function=hf))]
                elif kind == "ebf":
                    loads = [("frombytes", lambda: cls.frombytes(data, hash_function=hf)), ("filepath", lambda: cls(filepath=path, hash_function=hf))]
                elif kind == "rbf":
                    loads = [("frombytes", lambda: cls.frombytes(data, max_queue_size=self.tr["qmax"], hash_function=hf))]
                elif kind in ("cko", "ccko") and self.er:
                    loads = [("frombytes_error_rate", lambda: cls.frombytes(data, error_rate=self.er)), ("load_error_rate", lambda: cls.load_error_rate(self.er, path))]
                elif kind in ("cko", "ccko"):
                    loads = [("frombytes", lambda: cls.frombytes(data)), ("filepath", lambda: cls(filepath=path))]
            for name, mk in loads:
                g = mk()
                if kind in ("cko", "ccko") and not self.er and not self.dflt:
                    g.fingerprint_size = self.fs
                if kind in ("cko", "ccko") and self.er:
                    self.hcheck(g.fingerprint_size_bits == obj.fingerprint_size_bits, "C07.stable_across_reload.scale", kind=kind, loaded_bits=g.fingerprint_size_bits, original_bits=obj.fingerprint_size_bits, capacity=obj.capacity)
                got = [g.check(self.keys[j]) for j in sample]
                self.hcheck(got == want, "C05.queries.scale", kind=kind, channel=name, differing=sum(1 for a, b in zip(got, want) if a != b))
                self.hcheck(g.elements_added == obj.elements_added, "C05.geometry.scale", kind=kind, channel=name, loaded=g.elements_added, original=obj.elements_added)
                self.hcheck(g.elements_added == obj.elements_added, "C14.count.reload.scale", kind=kind, channel=name, loaded=g.elements_added, original=obj.elements_added)
                self.hcheck(bytes(g) == data, "C05.reexport.scale", kind=kind, channel=name)
                if kind in ("cko", "ccko"):
                    self.table_invariants(g, "C15.loaded_table.scale")
                if name == "ondisk_open":
                    g.close()
        except Exception as exc:  # noqa
            self.hcheck(False, "C05.load_raises.scale", kind=kind, raised=repr(exc))

    def stats(self):
        """C14 statistics at scale: estimate_elements / current rate from an independent bit count and 50-digit arithmetic."""
        obj = self.obj
        getcontext().prec = 50
        m, k = obj.number_bits, obj.number_hashes
        X = len(self.full()) if self.kind != "cbloom" else sum(1 for c in obj.bloom if c)
        est = obj.estimate_elements()
        if X >= m:
            self.hcheck(est == -1, "C14.estimate_full.scale")
        else:
            exact = -(Decimal(m) / Decimal(k)) * (Decimal(1) - Decimal(X) / Decimal(m)).ln()
            if abs(exact - exact.to_integral_value()) > Decimal("1e-6"):
                self.hcheck(est == int(exact), "C14.estimate_formula.scale", kind=self.kind, bits=m, set_bits=X, estimate=est, exact=str(exact)[:30])
        n = obj.elements_added
        exact = (Decimal(1) - (Decimal(-k * n) / Decimal(m)).exp()) ** k
        self.hcheck(abs(Decimal(obj.current_false_positive_rate()) - exact) <= Decimal("1e-12") + exact * Decimal("1e-9"), "C14.current_fpr_formula.scale", kind=self.kind)

    def table_invariants(self, f, clause):
        from probables.hashes import fnv_1a

        cap, bs = f.capacity, f.bucket_size
        bk = f.buckets
        ok = len(bk) == cap and all(len(b) <= bs for b in bk)
        fps = []
        for i, b in enumerate(bk):
            for e in b:
                fp, cnt = (e.finger, e.count) if self.kind == "ccko" else (e, 1)
                fps.append(fp)
                if i not in (fp % cap, fnv_1a(str(fp)) % cap) or cnt < 1:
                    ok = False
        ok = ok and len(fps) == len(set(fps))
        self.hcheck(ok, clause, kind=self.kind, capacity=cap)

    def disk_file(self, adds):
        """C11 at scale: the backing file is a well-formed, current export, identical to an in-memory filter's"""
        data = open(self.path, "rb").read()
        blen = (self.tr["m"] + 7) // 8
        self.hcheck(len(data) == blen + 20, "C11.wellformed.scale", file_bytes=len(data), expected=blen + 20)
        if len(data) >= 20:
            est, cnt = struct.unpack("QQ", data[-20:-4])
            self.hcheck(est == self.tr["est"] and cnt == adds, "C11.count_current.scale", footer=(est, cnt), completed_adds=adds)

    # -- drivers ---------------------------------------------------------------------------------
    def run_long(self, nev):
        P, rnd, kind, keys, nkeys = self.P, self.rnd, self.kind, self.keys, self.nkeys
        out = self.out
        hot = None
        if kind in ("cbloom", "cms") and nev > 20 and rnd.random() < 0.7:   # a hot key whose counters creep across a storage-width mark (2^8, 2^15, 2^16) a few units at a time
            hot = rnd.randrange(nkeys)
            a0 = rnd.choice([256, 32768, 32768, 32768, 65536]) - rnd.randint(20, 45)
            ret = self.do_add(keys[hot], a0)
            out[hot] = a0
            self.emit("add", [(hot, a0)], ret=ret, probe_idx=[hot])
        for step in range(nev):
            i = rnd.randrange(nkeys)
            if hot is not None and rnd.random() < 0.35:
                i = hot
            key = keys[i]
            r = rnd.random() if i != hot else 0.5
            full = step % 23 == 22 or step == nev - 1
            pi = [i] + [rnd.randrange(nkeys) for _ in range(3)]
            try:
                if kind in ("bloom", "disk"):
                    if r < 0.02:
                        self.obj.clear()
                        out.clear()
                        self.emit("clear", [], probe_idx=pi, full=full)
                    elif r < 0.07:
                        self.reload()
                        self.emit("rt", [], probe_idx=pi, full=full)
                    elif r < 0.10:
                        self.union(pi)
                    else:
                        self.do_add(key)
                        out[i] = out.get(i, 0) + 1
                        self.emit("add", [(i, 1)], probe_idx=pi, full=full)
                elif kind in ("cbloom", "cms"):
                    # with a creeping hot key every other amount stays small, so that the first crossing of the mark is the creeping one
                    a = rnd.choice([1, 1, 2, 3, 7]) if (rnd.random() < 0.9 or hot is not None) else rnd.choice([200, 32760, 33000, 65500, 66000])
                    if r < 0.3 and out.get(i, 0) > 0:
                        a = rnd.randint(1, out[i])
                        ret = self.do_rem(key, a)
                        out[i] -= a
                        self.emit("rem", [(i, a)], ret=ret, probe_idx=pi, full=full)
                    elif 0.3 <= r < (0.33 if hot is None else 0.305):
                        self.reload()
                        self.emit("rt", [], probe_idx=pi, full=full)
                    else:
                        ret = self.do_add(key, a)
                        out[i] = out.get(i, 0) + a
                        self.emit("add", [(i, a)], ret=ret, probe_idx=pi, full=full)
                elif kind in ("ebf", "rbf"):
                    if r < 0.02:
                        self.obj.push()
                        self.emit("push", [], probe_idx=pi, full=full)
                    elif r < 0.04 and kind == "rbf" and self.obj.current_queue_size > 1:
                        self.obj.pop()
                        self.emit("pop", [], probe_idx=pi, full=full)
                    elif r < 0.08:
                        self.reload()
                        self.emit("rt", [], probe_idx=pi, full=full)
                    else:
                        force = 1 if rnd.random() < 0.1 else 0
                        self.do_add(key, bool(force))
                        self.emit("add", [(i, force)], probe_idx=pi, full=full)
                elif kind in ("cko", "ccko"):
                    self.cuckoo_step(i, r, pi)
                else:
                    n_now = self.obj.elements_added
                    k_fit = max(3, n_now.bit_length())
                    if self.tr["auto"] and 100 * (n_now - 1) >= 85 * (1 << k_fit) and rnd.random() < 0.25:
                        # a manual shrink to the smallest table that holds everything while the load is above the limit: the re-insertion
                        # crosses the limit and the table grows again while it is being rebuilt
                        self.obj.resize(k_fit)
                        self.emit("rsz", [], a=k_fit, probe_idx=pi, full=full)
                    elif r < 0.25:
                        self.do_rem(key)
                        self.emit("rem", [(i, 1)], probe_idx=pi, full=full)
                    elif r < 0.28:
                        nq = rnd.randint(3, 10)
                        tight = rnd.random() < 0.4      # the smallest table that still holds everything: with growth switched on the re-insertion
                        if tight:                       # may cross the load limit and grow again while the table is being rebuilt
                            nq = max(3, self.obj.elements_added.bit_length())
                        if tight or self.obj.elements_added < (1 << nq) * 0.8:
                            self.obj.resize(nq)
                            self.emit("rsz", [], a=nq, probe_idx=pi, full=full)
                    elif 0.28 <= r < 0.31 and self.tr["auto"]:
                        lf = rnd.choice([0.3, 0.5, 0.65, 0.7, 0.75, 0.9, 0.95])
                        self.obj.max_load_factor = lf
                        self.emit("lf", [], a=int(round(lf * 10000)), probe_idx=pi, full=full)
                    elif not self.tr["auto"] and self.obj.elements_added >= self.obj.num_elements - 1:
                        self.do_rem(key)
                        self.emit("rem", [(i, 1)], probe_idx=pi, full=full)
                    else:
                        self.do_add(key)
                        self.emit("add", [(i, 1)], probe_idx=pi, full=full)
            except Exception as exc:  # noqa
                self.tr["raised"] = repr(exc)
                break
        self.finish()

    def run_table(self, nev):
        """HeavyHitters / StreamThreshold: skewed stream; the public table is dumped now and then"""
        rnd, kind, keys, nkeys = self.rnd, self.kind, self.keys, self.nkeys
        out = {}
        try:
            for step in range(nev):
                i = min(nkeys - 1, int(rnd.paretovariate(0.9)) - 1) if rnd.random() < 0.7 else rnd.randrange(nkeys)
                a = rnd.choice([1, 1, 1, 2, 5])
                if kind == "st" and out.get(i, 0) > 0 and rnd.random() < 0.25:
                    a = rnd.randint(1, out[i])
                    ret = self.do_rem(keys[i], a)
                    out[i] -= a
                    ev = self.emit("rem", [(i, a)], ret=ret)
                else:
                    ret = self.do_add(keys[i], a)
                    out[i] = out.get(i, 0) + a
                    ev = self.emit("add", [(i, a)], ret=ret)
                if step % 40 == 39 or step == nev - 1:
                    ev["full"] = self.full()
                    ev["aux"] = dict(ev["aux"], dump=1)
        except Exception as exc:  # noqa
            self.tr["raised"] = repr(exc)
        self.c19_battery()

    def run_bits(self, nev):
        rnd, n = self.rnd, self.tr["m"]
        try:
            for step in range(nev):
                r = rnd.random()
                batch = [rnd.randrange(n) for _ in range(rnd.randint(1, 300 if self.big else 12))]
                if rnd.random() < 0.3:   # a stretch around a block / byte boundary
                    b0 = rnd.choice([4096 * 8, 8192 * 8, 65536 * 8, n, 64, 4096]) % n
                    batch = [(b0 + d) % n for d in range(-9, 9)]
                pi = batch[:20] + [rnd.randrange(n) for _ in range(20)] + [0, n - 1]
                if r < 0.55:
                    for j in batch:
                        self.obj.set_bit(j) if rnd.random() < 0.5 else self.obj.__setitem__(j, 1)
                    ev = self.emit("set", [(j - 1, 1) for j in batch], probe_idx=pi)
                elif r < 0.95:
                    for j in batch:
                        self.obj.clear_bit(j) if rnd.random() < 0.5 else self.obj.__setitem__(j, 0)
                    ev = self.emit("clr", [(j - 1, 1) for j in batch], probe_idx=pi)
                else:
                    self.obj.clear()
                    ev = self.emit("clear", [], probe_idx=pi)
                if step % 7 == 6 or step == nev - 1:
                    ev["ret"] = self.obj.num_bits_set()
                    ev["full"] = self.full()
                    ev["aux"] = dict(ev["aux"], dump=1)
                    if n <= 70000:
                        fs = set(ev["full"])
                        self.hcheck(self.obj.as_string() == "".join("1" if i in fs else "0" for i in range(n)), "C20.string.scale", n=n)
        except Exception as exc:  # noqa
            self.tr["raised"] = repr(exc)

    def c19_battery(self):
        """C19 at scale (oracle-free): a battery of read-only calls leaves the exported bytes / tables / counters unchanged; clear() = fresh"""
        obj, kind, rnd = self.obj, self.kind, self.rnd
        if kind in ("bits",):
            return
        try:
            if kind == "qf":
                if all(hasattr(obj, a) for a in ("_filter", "_is_occupied", "_is_shifted", "_is_continuation")):
                    snap = lambda: (obj.elements_added, obj.quotient, bytes(obj._filter), bytes(obj._is_occupied.bitarray), bytes(obj._is_shifted.bitarray), bytes(obj._is_continuation.bitarray))  # noqa
                else:      # refactored internals: the public projection
                    snap = lambda: (obj.elements_added, obj.quotient, sorted(obj.get_hashes()))  # noqa
            elif kind in ("hh", "st"):
                snap = lambda: (bytes(obj), obj.elements_added, dict(obj.heavy_hitters if kind == "hh" else obj.meets_threshold))  # noqa
            else:
                snap = lambda: (bytes(obj), obj.elements_added)  # noqa
            before = snap()
            for j in rnd.sample(range(self.nkeys), min(200, self.nkeys)):
                obj.check(self.keys[j])
                self.keys[j] in obj  # noqa
            obj.check("never-added-key")
            str(obj)
            if kind == "qf":
                obj.get_hashes()
                obj.print(file=io.StringIO())
            else:
                obj.export(io.BytesIO()) if kind != "disk" else obj.export(self.path + ".q")
                obj.export(self.path + ".q2")
            if kind in ("bloom", "disk", "cbloom"):
                obj.estimate_elements(), obj.current_false_positive_rate(), obj.export_hex(), obj.export_size()
                obj.jaccard_index(obj), obj.union(obj), obj.intersection(obj)
            if kind in ("cko", "ccko"):
                obj.load_factor()
            self.hcheck(snap() == before, "C19.queries_unchanged.scale", kind=kind)
        except Exception as exc:  # noqa
            self.hcheck(False, "C19.query_raises.scale", kind=kind, raised=repr(exc))
        if kind in ("bloom", "disk", "cbloom", "cms", "hh", "st"):
            try:
                obj.clear()
                if kind == "disk":
                    fresh = self.P.BloomFilterOnDisk(self.path + ".fresh", **self.args)
                    same = bytes(obj) == bytes(fresh) and obj.elements_added == 0
                    fresh.close()
                else:
                    fresh = type(obj)(**dict(self.args, **({"num_hitters": self.tr["est"]} if kind == "hh" else {"threshold": self.tr["est"]} if kind == "st" else {})))
                    same = bytes(obj) == bytes(fresh) and obj.elements_added == 0
                    if kind in ("hh", "st"):
                        same = same and not (obj.heavy_hitters if kind == "hh" else obj.meets_threshold)
                self.hcheck(same, "C19.clear_fresh.scale", kind=kind)
                self.emit("clear", [], probe_idx=[] if kind in ("hh", "st") else rnd.sample(range(self.nkeys), min(30, self.nkeys)))
            except Exception as exc:  # noqa
                self.hcheck(False, "C19.clear_raises.scale", kind=kind, raised=repr(exc))

    def c19_battery_disk(self):
        obj = self.obj
        before = (bytes(obj), obj.elements_added, open(self.path, "rb").read())
        for j in self.rnd.sample(range(self.nkeys), min(200, self.nkeys)):
            obj.check(self.keys[j])
        str(obj), obj.estimate_elements(), obj.export_hex(), obj.export(self.path + ".q")
        obj.union(obj), obj.jaccard_index(obj)
        self.hcheck((bytes(obj), obj.elements_added, open(self.path, "rb").read()) == before, "C19.queries_unchanged.scale", kind="disk")

    def counter_merge(self, done):
        """counting-Bloom union (a query) / count-min join (modifies the receiver) with a second structure holding a batch of keys"""
        rnd, kind = self.rnd, self.kind
        ks = [(j, rnd.choice([1, 2, 256, 512, 65536])) for j in rnd.sample(range(self.nkeys), min(300, self.nkeys))]
        B = type(self.obj)(**self.args)
        for j, a in ks:
            B.add(self.keys[j], a)
        if kind == "cbloom":
            res = self.obj.union(B)
            if res is None:
                self.hcheck(False, "C13.compatible_not_none.scale")
                return
            self.tr["ev"].append({"op": "union", "ks": [[j + 1, a] for j, a in ks], "a": 0, "ret": 0, "n": 0, "probes": [], "full": self.full(res), "aux": dict(NOAUX)})
            inter = self.obj.intersection(B)
            j1, j2 = self.obj.jaccard_index(B), B.jaccard_index(self.obj)
            ca, cb = list(self.obj.bloom), list(B.bloom)
            ni, nu = sum(1 for x, y in zip(ca, cb) if x and y), sum(1 for x, y in zip(ca, cb) if x or y)
            self.hcheck(inter is not None and j1 == j2 == (1.0 if nu == 0 else ni / nu), "C13.jaccard_value.scale", kind=kind, jaccard=[j1, j2], both=ni, either=nu)
            if inter is not None:
                self.tr["ev"].append({"op": "inter", "ks": [[j + 1, a] for j, a in ks], "a": 0, "ret": 0, "n": 0, "probes": [], "full": self.full(inter), "aux": dict(NOAUX)})
        else:
            b0 = bytes(B)
            self.obj.join(B)
            self.hcheck(bytes(B) == b0, "C13.join_operand_unchanged.scale")
            self.emit("join", ks, probe_idx=rnd.sample(range(self.nkeys), 40), full=True)

    def cuckoo_step(self, i, r, pi):
        from probables.exceptions import CuckooFilterFullError

        key = self.keys[i]
        if r < 0.2:
            self.do_rem(key)
            self.emit("rem", [(i, 1)], probe_idx=pi)
        elif r < 0.23:
            self.reload()
            self.emit("rt", [], probe_idx=pi)
        else:
            watch = self.rnd.sample(range(self.nkeys), min(60, self.nkeys))
            before = [bool(self.obj.check(self.keys[j])) for j in watch]
            try:
                self.do_add(key)
                self.emit("add", [(i, 1)], probe_idx=pi)
            except CuckooFilterFullError:
                after = [bool(self.obj.check(self.keys[j])) for j in watch]
                lost = sum(1 for a, b in zip(before, after) if a and not b)
                self.emit("addfail", [(i, 1)], probe_idx=[], lost=lost)

    def reload(self):
        P, kind, hf, obj = self.P, self.kind, self.hf, self.obj
        if kind == "disk":
            obj.close()
            self.obj = P.BloomFilterOnDisk(self.path, hash_function=hf)
        elif kind == "rbf":
            self.obj = P.RotatingBloomFilter.frombytes(vary_buf(bytes(obj)), max_queue_size=self.tr["qmax"], hash_function=hf)
        elif kind in ("cko", "ccko"):
            if self.er:
                g = type(obj).frombytes(vary_buf(bytes(obj)) if kind == "ccko" else bytes(obj), error_rate=self.er)
            else:
                g = type(obj).frombytes(vary_buf(bytes(obj)) if kind == "ccko" else bytes(obj))
                if not self.dflt:
                    g.fingerprint_size = self.fs
            g.auto_expand = obj.auto_expand
            self.obj = g
        else:
            ch = self.rnd.choice(["bytes", "file"] + (["hex"] if kind in ("bloom", "cbloom") else []))
            cls = type(obj)
            if ch == "bytes":
                self.obj = cls.frombytes(vary_buf(bytes(obj)), hash_function=hf)
            elif ch == "hex":
                self.obj = cls(hex_string=obj.export_hex(), hash_function=hf)
            else:
                obj.export(self.path + ".x")
                self.obj = cls(filepath=self.path + ".x", hash_function=hf)

    def union(self, pi, batch=None):
        """a second filter (in-memory or on-disk) holding some keys is united with this one, in either order"""
        P, rnd = self.P, self.rnd
        ks = batch if batch is not None else [rnd.randrange(self.nkeys) for _ in range(rnd.randint(1, 6))]
        second_disk = rnd.random() < 0.4
        p2 = self.path + ".second"
        B = P.BloomFilterOnDisk(p2, **self.args) if second_disk else P.BloomFilter(**self.args)
        for j in ks:
            B.add(self.keys[j])
        res = self.obj.union(B) if rnd.random() < 0.5 else B.union(self.obj)
        inter = self.obj.intersection(B) if rnd.random() < 0.5 else B.intersection(self.obj)
        j1, j2 = self.obj.jaccard_index(B), B.jaccard_index(self.obj)
        da, db = bytes(self.obj)[: (self.tr["m"] + 7) // 8], bytes(B)[: (self.tr["m"] + 7) // 8]
        if second_disk:
            B.close()
        if res is None or inter is None or j1 is None:
            self.hcheck(False, "C13.compatible_not_none.scale")
            return
        ia, ib = int.from_bytes(da, "little"), int.from_bytes(db, "little")
        ni, nu = bin(ia & ib).count("1"), bin(ia | ib).count("1")
        self.hcheck(j1 == j2 == (1.0 if nu == 0 else ni / nu), "C13.jaccard_value.scale", kind=self.kind, jaccard=[j1, j2], both=ni, either=nu)
        self.tr["ev"].append({"op": "inter", "ks": [[j + 1, 1] for j in ks], "a": 0, "ret": 0, "n": 0, "probes": [], "full": self.full(inter), "aux": dict(NOAUX)})
        ev = {"op": "union", "ks": [[j + 1, 1] for j in ks], "a": 0, "ret": 0, "n": 0,
              "probes": [[j + 1, int(res.check(self.keys[j]))] for j in list(pi) + list(ks[:40])], "full": self.full(res), "aux": dict(NOAUX)}
        self.tr["ev"].append(ev)

    def run_big(self):
        """batched additions on a structure whose arrays / tables cross block-size marks"""
        rnd, kind, keys, nkeys = self.rnd, self.kind, self.keys, self.nkeys
        order = list(range(nkeys))
        rnd.shuffle(order)
        nb = 12
        size = (nkeys + nb - 1) // nb
        done = []
        adds = 0
        try:
            for b in range(nb):
                batch = order[b * size:(b + 1) * size]
                if not batch:
                    break
                if kind in ("cko", "ccko"):
                    self.big_cuckoo_batch(batch, done)
                    if b in (2, 6) and self.obj.capacity < 30000:     # a manual expansion; then export + reload with what the format does not store
                        self.obj.expand()
                        self.emit("exp", [], probe_idx=rnd.sample(done, min(100, len(done))) if done else [])
                        self.table_invariants(self.obj, "C15.table.scale")
                        self.roundtrip()
                    if b in (5, 9) and done:      # removals: every other key must stay (and, counting, keep its count)
                        rem = rnd.sample(done, len(done) // 3)
                        ok = []
                        for j in rem:
                            if self.do_rem(keys[j]):
                                ok.append((j, 1))
                            if len(ok) >= 400:
                                self.emit("rem", ok, probe_idx=rnd.sample(done, min(80, len(done))))
                                ok = []
                        if ok:
                            self.emit("rem", ok, probe_idx=rnd.sample(done, min(200, len(done))))
                        rs = set(rem)
                        done[:] = [j for j in done if j not in rs]
                        self.table_invariants(self.obj, "C15.table.scale")
                    continue
                amounts = []
                for j in batch:
                    a = 1
                    if kind in ("cbloom", "cms"):
                        a = rnd.choice([1, 1, 2, 5]) if rnd.random() < 0.95 else rnd.choice([250, 256, 512, 1024, 32700, 32767, 40000, 65530, 65536, 70000])   # hot keys: counters at / across 2^8, 2^15, 2^16
                        self.do_add(keys[j], a)
                    elif kind in ("ebf", "rbf"):
                        a = 0
                        self.do_add(keys[j])
                    else:
                        self.do_add(keys[j])
                    amounts.append((j, a))
                    adds += 1
                done += batch
                pi = rnd.sample(batch, min(25, len(batch))) + rnd.sample(done, min(25, len(done))) + rnd.sample(order, 10)
                self.emit("add", amounts, probe_idx=pi, full=(b in (3, nb - 1)))
                if kind == "disk":
                    self.disk_file(adds)
                if kind in ("bloom", "disk") and b in (2, 7):
                    self.union(rnd.sample(done, 20), batch=rnd.sample(order, min(400, nkeys)))
                if kind in ("cbloom", "cms") and b in (3, 8):
                    self.counter_merge(done)
                if b in (4, 9) and kind != "qf":
                    self.roundtrip()
                    self.reload()
                    self.emit("rt", [], probe_idx=rnd.sample(done, min(40, len(done))))
                if kind in ("bloom", "disk", "cbloom") and b in (5, nb - 1):
                    self.stats()
                if kind in ("cbloom", "cms") and b == 6:
                    rem = sorted(set(rnd.sample(done, min(200, len(done)))))   # each was added with amount >= 1: removing 1 is legitimate
                    for j in rem:
                        self.do_rem(keys[j], 1)
                    self.emit("rem", [(j, 1) for j in rem], probe_idx=rnd.sample(order, 30), full=True)
                if kind == "qf" and b in (5, 8):
                    self.emit("noop", [], probe_idx=rnd.sample(order, 60), full=True)
            if kind == "qf":      # removals under high load: first the oldest half in two batches, then a scattered quarter
                parts = [done[: len(done) // 4], done[len(done) // 4: len(done) // 2], rnd.sample(done[len(done) // 2:], len(done) // 8)]
                if not self.tr["auto"]:   # small dense table: many small removal steps, each followed by a full comparison
                    parts = [done[i::8] for i in range(6)]
                for part in parts:
                    for j in part:
                        self.do_rem(keys[j])
                    self.emit("rem", [(j, 1) for j in part], probe_idx=rnd.sample(order, min(300, nkeys)), full=True)
        except Exception as exc:  # noqa
            self.tr["raised"] = repr(exc)
        self.finish()
        if kind != "disk" and not self.tr.get("raised"):
            self.c19_battery()

    def big_cuckoo_batch(self, batch, done):
        from probables.exceptions import CuckooFilterFullError

        rnd, keys = self.rnd, self.keys
        ok = []
        for j in batch:
            watch = None
            load = self.obj.load_factor()
            if load > 0.9 and not self.obj.auto_expand:
                watch = rnd.sample(done, min(80, len(done))) if done else []
                before = [bool(self.obj.check(keys[x])) for x in watch]
            try:
                cap0 = self.obj.capacity
                self.do_add(keys[j])
                ok.append((j, 1))
                done.append(j)
                if self.obj.capacity != cap0:   # this add expanded the table: the key that triggered it and its predecessors must be there
                    self.emit("add", ok, probe_idx=[j] + [x for x, _ in ok[-30:]] + rnd.sample(done, min(60, len(done))))
                    ok = []
            except CuckooFilterFullError:
                if ok:
                    self.emit("add", ok, probe_idx=rnd.sample(done, min(40, len(done))))
                    ok = []
                after = [bool(self.obj.check(keys[x])) for x in (watch or [])]
                lost = sum(1 for a, b in zip(before, after) if a and not b) if watch is not None else 0
                self.emit("addfail", [(j, 1)], lost=lost)
        if ok:
            self.emit("add", ok, probe_idx=rnd.sample(done, min(60, len(done))) + rnd.sample(batch, min(20, len(batch))))
        self.table_invariants(self.obj, "C15.table.scale")
        if rnd.random() < 0.35:
            self.roundtrip()
            self.reload()
            self.emit("rt", [], probe_idx=rnd.sample(done, min(60, len(done))))

    def finish(self):
        if self.kind == "disk":
            try:
                if self.big and not self.tr.get("raised"):
                    self.c19_battery_disk()
                self.obj.close()
                mem = self.P.BloomFilter(**self.args)
                for ev in self.tr["ev"]:
                    if ev["op"] == "add":
                        for k, _ in ev["ks"]:
                            mem.add(self.keys[k - 1])
                    elif ev["op"] == "clear":
                        mem.clear()
                self.hcheck(open(self.path, "rb").read() == bytes(mem), "C11.close_equals_inmemory.scale", bits=self.tr["m"])
                if self.big:   # C19 at scale: clear() on the reopened on-disk filter = a freshly created one (file included)
                    g = self.P.BloomFilterOnDisk(self.path, hash_function=self.hf)
                    g.clear()
                    fresh = self.P.BloomFilterOnDisk(self.path + ".fresh", **self.args)
                    same = bytes(g) == bytes(fresh) and g.elements_added == 0
                    g.close()
                    fresh.close()
                    same = same and open(self.path, "rb").read() == open(self.path + ".fresh", "rb").read()
                    self.hcheck(same, "C19.clear_fresh.scale", kind="disk", bits=self.tr["m"])
            except Exception as exc:  # noqa
                self.hcheck(False, "C11.close_raises.scale", raised=repr(exc))
        if self.kind in ("cko", "ccko"):
            self.table_invariants(self.obj, "C15.table.scale")


CFG = "INIT Init\nNEXT Next\nCHECK_DEADLOCK FALSE\n"


def replay(body):
    """re-record the trace named in a replay file on the current tree and validate it again"""
    rr = body["rerun"]
    cfg = tuple(rr["cfg"]) if isinstance(rr["cfg"], list) else rr["cfg"]
    tr, hfails = _record((rr["seed"], rr["kind"], rr["ti"], rr["big"], rr["nev"], cfg))
    verdicts, _ = validate([tr])
    fails = [c for c, _ in verdicts[tr["id"]] if not c.startswith("DRIFT")] + [c for c, _ in hfails] + (["call_raises: " + tr["raised"]] if tr.get("raised") else [])
    return fails


def validate(traces, timeout=2400):
    slim = []
    for tr in traces:
        t2 = {k: tr[k] for k in ("id", "kind", "m", "k", "w", "d", "est", "qmax", "q", "auto", "pos")}
        t2["ev"] = [{k: e[k] for k in ("op", "ks", "a", "ret", "n", "probes", "full", "aux")} for e in tr["ev"]]
        slim.append(t2)
    verdicts = {}

    def on_json(j):
        if isinstance(j, dict) and "verdict" in j:
            verdicts[j["verdict"]] = j["fails"]

    r = tlc.run_tlc("TraceScale", CFG, workers=1, timeout=timeout, on_json=on_json, files={"traces.json": json.dumps(tlc.clamp_ints(slim))}, heap="8g", stack="512m")
    if len(verdicts) != len(traces):
        raise tlc.MachineryError(f"TraceScale: {len(verdicts)} verdicts for {len(traces)} traces\n" + "\n".join(r.tail[-25:]))
    return verdicts, r


def _record(args):
    seed, kind, ti, big, nev = args[:5]
    cfg = args[5] if len(args) > 5 else None
    import sys

    from ..core import REPO  # noqa  (sets sys.path)

    rnd = _random.Random(seed * 100003 + ti * 131 + (7 if big else 0))
    _random.seed(seed * 7919 + ti)   # the cuckoo filters draw from the global generator: keep runs reproducible
    tmp = tempfile.mkdtemp(prefix="scale-", dir=tlc.scratch_root())
    try:
        rec = Rec(rnd, kind, ti, tmp, big, cfg)
        rec.tr["rerun"] = {"seed": seed, "kind": kind, "ti": ti, "big": big, "nev": nev, "cfg": list(cfg) if isinstance(cfg, tuple) else cfg}
        if kind in ("hh", "st"):
            rec.run_table(4000 if big else nev * 3)
        elif kind == "bits":
            rec.run_bits(60 if big else nev)
        elif big:
            rec.run_big()
        else:
            rec.run_long(nev)
        return rec.tr, rec.hfails
    finally:
        shutil.rmtree(tmp, ignore_errors=True)


HPROP = {"C05": "C05", "C11": "C11", "C13": "C13", "C14": "C14", "C15": "C15"}


def run(focus, tier, seed):
    import multiprocessing
    from concurrent.futures import ProcessPoolExecutor, ThreadPoolExecutor

    total = Tally(focus)
    kinds = SERVES.get(focus, KINDS)
    n_long, nev, n_big = (2, 120, 1) if tier == "quick" else (25, 300, 6)
    if tier == "quick" and len(kinds) > 5:
        n_long = 1
    if tier == "quick" and len(kinds) <= 2:
        n_long = 6
    jobs = []
    for kind in kinds:
        if focus not in ("C05", "C11", "C12", "C13", "C15", "C19"):
            for _ in range(n_long):
                jobs.append((seed, kind, len(jobs), False, nev))
        cfgs = BIG[kind]
        if tier == "quick":   # few kinds in focus: every big configuration; many kinds: the first (threshold-critical) ones
            cfgs = cfgs if len(kinds) <= 4 else cfgs[:2] if kind in ("cko", "ccko", "bloom", "qf") else cfgs[:1]
        for cfg in cfgs:
            jobs.append((seed, kind, len(jobs), True, 0, cfg))
    with ProcessPoolExecutor(max_workers=min(14, len(jobs)), mp_context=multiprocessing.get_context("forkserver")) as ex:
        recs = list(ex.map(_record, jobs))
    traces = [r[0] for r in recs]
    nb = min(14, len(traces))
    # balance: big traces first, round-robin
    order = sorted(traces, key=lambda t: -sum(len(e["ks"]) + len(e["full"]) for e in t["ev"]))
    chunks = [order[i::nb] for i in range(nb)]
    with ThreadPoolExecutor(max_workers=nb) as ex:
        results = list(ex.map(validate, chunks))
    bytr = {tr["id"]: tr for tr in traces}
    for tr, hfails in recs:
        for clause, n in tr.get("hchecks", {}).items():
            total.ok(clause.split(".")[0], clause, n)
        for clause, detail in hfails:
            total.fail(clause.split(".")[0], clause, ENGINE, {"kind": tr["kind"], "big": tr["big"], "config": {k: tr[k] for k in ("m", "k", "w", "d", "est", "qmax", "q", "auto")}, "detail": detail, "rerun": tr.get("rerun")},
                       {"kind": tr["kind"], "big": tr["big"]})
        if tr.get("raised"):
            prop = {"qf": "C04", "cms": "C02", "cbloom": "C08", "ebf": "C09", "rbf": "C10", "cko": "C03", "ccko": "C03", "disk": "C11", "hh": "C17", "st": "C17", "bits": "C20"}.get(tr["kind"], "C01")
            for pr in {prop, focus} & set(SERVES) if focus in SERVES and tr["kind"] in SERVES[focus] else {prop}:
                total.fail(pr, f"{pr}.call_raises.scale", ENGINE, {"kind": tr["kind"], "big": tr["big"], "raised": tr["raised"], "events_before": len(tr["ev"]),
                                                                  "config": {k: tr[k] for k in ("m", "k", "w", "d", "est", "qmax", "q", "auto")}}, {"kind": tr["kind"], "big": tr["big"]})
    for verdicts, r in results:
        d = r.as_dict()
        d.update(spec="TraceScale", mode="trace-validation")
        total.mc.append(d)
        for tid, fails in verdicts.items():
            tr = bytr[tid]
            total.c2s += 1
            total.evaluations += sum(max(1, len(e["ks"])) for e in tr["ev"])
            total.nontriv(hash((tid, tr["kind"], tr["big"], len(tr["ev"]))))
            for clause, idx in fails:
                if clause.startswith("DRIFT"):
                    total.add_drift(ENGINE, {"trace": tid, "kind": tr["kind"], "big": tr["big"], "clause": clause, "event": idx})
                    continue
                prop = clause.split(".")[0]
                e = tr["ev"][idx - 1]
                total.fail(prop, clause + ".scale", ENGINE, {"kind": tr["kind"], "big": tr["big"], "config": {k: tr[k] for k in ("m", "k", "w", "d", "est", "qmax", "q", "auto")},
                                                             "event_index": idx, "event": {"op": e["op"], "keys_in_batch": len(e["ks"]), "n": e["n"], "probes": e["probes"][:12], "aux": e["aux"]},
                                                             "rerun": tr.get("rerun")},
                           {"kind": tr["kind"], "big": tr["big"]})
            for prop, cl in (("C01", "C01.present"), ("C02", "C02.bounds"), ("C03", "C03.kept"), ("C04", "C04.member"), ("C08", "C08.cb_lower"), ("C09", "C09.cap"),
                             ("C10", "C10.window"), ("C12", "C12.cells"), ("C14", "C14.count"), ("C17", "C17.table"), ("C20", "C20.bits")):
                total.ok(prop, cl + ".scale", len(tr["ev"]))
    t0 = traces[0]
    total.sample({"kind": t0["kind"], "big": t0["big"], "config": {k: t0[k] for k in ("m", "k", "w", "d", "est", "qmax", "q", "auto")}, "keys": len(t0["pos"]),
                  "events": [{"op": e["op"], "batch": len(e["ks"]), "n": e["n"]} for e in t0["ev"][:6]]})
    total.extra["scale_traces"] = [{"kind": t["kind"], "big": t["big"], "cells": t["m"] if t["kind"] != "cms" else t["w"] * t["d"], "keys": len(t["pos"]), "events": len(t["ev"])} for t in traces]
    total.rules.append("Scale: seeded histories with real text/bytes keys and the library's hash functions: 'long' traces (120-300 single calls on 100-5000 cells) and 'big' traces "
                       "(batched additions of thousands of keys on arrays/tables crossing the 4 KiB, 8 KiB, 64 KiB, 1024-bucket, 65536-slot marks, with reloads, unions, growth, "
                       "nearly full tables), validated by TLC against a sparse abstract state; non-trivial = one trace (each has collisions and growth events)")
    total.exhaustive = False
    return total
