"""BloomFilter / BloomFilterOnDisk / CountingBloomFilter against spec/BloomFamily.tla.
Serves C01 C08(counting Bloom) C12 C13 C14 C16 C19 C05."""
import copy
import io
import itertools
import math
import os
import random as _random
import shutil
import tempfile
import zlib

from ..core import Tally, vary_buf  # noqa: F401
from .. import s2c, tlc

ENGINE = "bloomfam"
MOD = "vlib.engines.bloomfam"

# (M, K) -> constructor arguments (est_elements, false_positive_rate); the real object's number_bits /
# number_hashes are compared with (M, K) before anything else (a mismatch is reported as drift: sizing is C07's business)
GEOM = {
    (2, 1): (1, 0.5), (3, 1): (2, 0.5), (3, 2): (1, 0.35), (4, 1): (2, 0.45), (4, 3): (1, 0.2), (5, 2): (2, 0.35),
    (5, 3): (1, 0.1), (6, 2): (2, 0.3), (7, 2): (2, 0.2), (7, 5): (1, 0.05), (8, 1): (4, 0.4), (8, 2): (3, 0.3),
    (8, 3): (2, 0.15), (9, 2): (3, 0.25), (10, 3): (2, 0.1), (15, 2): (5, 0.25), (16, 2): (6, 0.3), (16, 3): (4, 0.15),
    (17, 2): (5, 0.2), (13, 5): (2, 0.05),
}


def gen_tables(keys, M, K, H, n, seed, exhaustive=False):
    """hash tables key -> K raw values in 0..H.  Special shapes first, then a seeded sample (or all)."""
    keys = sorted(keys)
    if exhaustive:
        per_key = list(itertools.product(range(H + 1), repeat=K))
        return [dict(zip(keys, combo)) for combo in itertools.product(per_key, repeat=len(keys))]
    rnd = _random.Random(seed)
    out = []
    out.append({k: tuple([0] * K) for k in keys})  # everything collides in cell 0
    out.append({k: tuple((i + j) % (H + 1) for j in range(K)) for i, k in enumerate(keys)})  # shifted, overlapping
    out.append({k: tuple([M + i] * K) for i, k in enumerate(keys)})  # each key's K positions coincide; values >= M
    out.append({k: tuple((i * K + j) % M for j in range(K)) for i, k in enumerate(keys)})  # as disjoint as possible
    while len(out) < n:
        out.append({k: tuple(rnd.randint(0, H) for _ in range(K)) for k in keys})
    return out[:n]


class Unmodelled(Exception):
    """the code did something the model has no action for (it accepted a call the model treats as rejected): the history is not judged further"""


def est_table(M, K):
    """the documented estimate of distinct elements for X = 0..M set cells, int(-(M/K) ln(1 - X/M)), by 50-digit arithmetic (TLC has no
    logarithm); -1 for X = M (documented: cannot estimate).  A value within 1e-9 of an integer would make the truncation undecidable here:
    none of the modelled geometries has one (asserted)."""
    from decimal import Decimal, getcontext

    getcontext().prec = 50
    out = [0]
    for X in range(1, M):
        exact = -(Decimal(M) / Decimal(K)) * (Decimal(1) - Decimal(X) / Decimal(M)).ln()
        assert abs(exact - round(exact)) > Decimal("1e-9"), (M, K, X)
        out.append(int(exact))
    return out + [-1]


def mc_module(p, tables):
    tabs = ", ".join("[" + ", ".join(f"{k} |-> {tlc.tla_val(list(v))}" for k, v in sorted(t.items())) + "]" for t in tables)
    return (
        "MCBloom",
        f"""---- MODULE MCBloom ----
EXTENDS BloomFamily
cKeys == {tlc.tla_val(set(p['keys']))}
cTables == {{{tabs}}}
cAmts == {tlc.tla_val(set(p['amts']))}
cWhos == {tlc.tla_val(set(p['whos']))}
cChannels == {tlc.tla_val(set(p.get('channels', ['bytes'])))}
cEstTab == {tlc.tla_val(est_table(p['M'], p['K']))}
cBad == {tlc.tla_val(set(p.get('bad', [])))}
cSetN == {tlc.tla_val(set(p.get('setn', [])))}
====
""",
    )


def cfg(p, mode):
    inv = """INVARIANT TypeOK
INVARIANT NoFalseNegative
INVARIANT UnionSuperset
INVARIANT UnionSumLower
INVARIANT InterBoth
INVARIANT JaccardOK
INVARIANT CounterMeaning
INVARIANT RemoveUndoesAdd
PROPERTY Monotone
PROPERTY SaturatedStays
"""
    return f"""CONSTANTS
  Keys <- cKeys
  M = {p['M']}
  K = {p['K']}
  Tables <- cTables
  Counting = {"TRUE" if p['counting'] else "FALSE"}
  CellMax = {p['cellmax']}
  TotMax = {p['totmax']}
  Amts <- cAmts
  MaxN = {p['maxn']}
  MaxDepth = {p['maxdepth']}
  Whos <- cWhos
  Channels <- cChannels
  MaxReloads = {p.get('maxreloads', 1)}
  MaxAdopt = {p.get('maxadopt', 0 if p.get('patch_limits') else 1)}
  Queries = {"TRUE" if p.get('queries') else "FALSE"}
  EstTab <- cEstTab
  Bad <- cBad
  SetN <- cSetN
INIT Init
NEXT Next
VIEW {"ViewH" if p.get("histview") else "View"}
CONSTRAINT Bound
{inv if mode in ("mc", "both") else ""}
{"ACTION_CONSTRAINT Emit" if mode in ("emit", "both") else ""}
CHECK_DEADLOCK FALSE
"""


def make_hash(table, probe=7, size=None):
    """the table-driven hash function handed to the real object.  With `size` (the modulus the structure reduces by) every third / fourth
    table is lifted by a multiple of size: beyond 64 bits resp. negative - a hand-written strategy may return any integer, and the
    positions (hash mod size, which is all the model knows) stay the same"""
    lift = 0
    if size:
        sel = zlib.crc32(repr(sorted(table.items())).encode()) % 4
        lift = {2: size * 2 ** 64, 3: -size * (2 ** 64 + 3)}.get(sel, 0)

    def hf(key, depth=1):
        if isinstance(key, (bytes, bytearray)):
            key = bytes(key).decode()
        if key in table:
            v = table[key]
            return [v[i % len(v)] + lift for i in range(depth)]
        return [probe + lift] * depth

    return hf


KEYMAP = {"a": "alpha", "b": b"b\xc3\xa9ta-bytes", "c": "g\u00e4mma-\u4e2d", "d": b"\x00\xff\x80delta"}


def strategy_fn(name):
    """one of the hashing strategies the properties quantify over (None = the library's default FNV-1a)"""
    if name in (None, "fnv"):
        from probables.hashes import default_fnv_1a

        return default_fnv_1a
    from .hashes import strategies

    return strategies()[name][0]


def strategy_table(name, keys, k, size):
    """the table TLC gets for a real strategy: the strategy is called once per key, positions reduced modulo the size"""
    fn = strategy_fn(name)
    return {key: tuple(h % size for h in fn(KEYMAP[key], k)) for key in keys}


class Ctx:
    def __init__(self, tally, params):
        import probables.blooms.countingbloom as cbm
        from probables import BloomFilter, BloomFilterOnDisk, CountingBloomFilter

        self.t = tally
        self.p = params
        self.BF, self.BFD, self.CBF = BloomFilter, BloomFilterOnDisk, CountingBloomFilter
        self.counting = params["counting"]
        self.keys = sorted(params["keys"])
        self.strategy = params.get("strategy")
        self.rk = (lambda k: KEYMAP.get(k, k)) if self.strategy else (lambda k: k)   # model key -> real key
        self.M, self.K = params["M"], params["K"]
        self.tmp = tempfile.mkdtemp(prefix="bloom-", dir=tlc.scratch_root())
        self.seq = 0
        self.cache = {}
        self.rt_seen = set()
        self.c19_seen = set()
        self.paths = {}
        self.patched = bool(self.counting and params.get("patch_limits"))
        # worker processes are reused: always (re)set the two limits the counting module reads
        cbm.UINT32_T_MAX = params["cellmax"] if self.patched else 2**32 - 1
        cbm.UINT64_T_MAX = params["totmax"] if self.patched else 2**64 - 1
        self.cellmax = params["cellmax"] if self.patched else (2**32 - 1)
        self.patch_ok = True
        if self.patched:   # does the implementation read the limits where we patched them?  If not, the tiny-limit graph cannot be replayed:
            try:           # skip it (the real-limit traces of TraceSat.tla still judge C16) instead of raising a false alarm
                probe = CountingBloomFilter(est_elements=1, false_positive_rate=0.35, hash_function=lambda k, d=1: [0, 1][:d] + [0] * max(0, d - 2))
                probe.add("p", params["cellmax"] + 2)
                self.patch_ok = max(probe.bloom) == params["cellmax"]
                # ... and does an ordinary little history still work under the patched constants on this geometry (they may mean something
                # else to another implementation)?
                est, fpr = GEOM[(self.M, self.K)]
                p2 = CountingBloomFilter(est_elements=est, false_positive_rate=fpr, hash_function=lambda k, d=1: list(range(d)))
                p2.add("p", 1)
                ok = p2.check("p") == 1 and p2.elements_added == 1 and CountingBloomFilter.frombytes(bytes(p2), hash_function=lambda k, d=1: list(range(d))).check("p") == 1
                p2.remove("p", 1)
                ok = ok and p2.check("p") == 0
                # ... and do union / remove read the patched limit as well (an implementation may have captured the real one at import time)?
                hi = params["cellmax"]
                hfp = lambda k, d=1: list(range(d))  # noqa
                a = CountingBloomFilter(est_elements=est, false_positive_rate=fpr, hash_function=hfp)
                b = CountingBloomFilter(est_elements=est, false_positive_rate=fpr, hash_function=hfp)
                a.add("p", hi - 1)
                b.add("p", 2)
                u = a.union(b)
                ok = ok and u.check("p") == hi            # clamped at the patched limit
                ok = ok and u.remove("p", 1) == hi and u.check("p") == hi      # a pinned cell is never decremented
                self.patch_ok = self.patch_ok and ok
            except Exception:  # noqa
                self.patch_ok = False

    def close(self):
        shutil.rmtree(self.tmp, ignore_errors=True)

    # -- real objects ----------------------------------------------------------------------------
    def new(self, kind, hf):
        est, fpr = GEOM[(self.M, self.K)]
        if self.counting:
            return self.CBF(est_elements=est, false_positive_rate=fpr, hash_function=hf)
        if kind == "disk":
            self.seq += 1
            path = os.path.join(self.tmp, f"f{self.seq}.blm")
            f = self.BFD(path, est_elements=est, false_positive_rate=fpr, hash_function=hf)
            self.paths[id(f)] = path
            return f
        return self.BF(est_elements=est, false_positive_rate=fpr, hash_function=hf)

    def pathof(self, f):
        """the backing file of an on-disk filter: the harness chose it (no private attribute of the library is needed)"""
        return self.paths[id(f)]

    def alt(self, o):
        """one model action, two entry points of the code: add(key) or add_alt(hashes(key)) (same for remove / check), chosen
        deterministically from the position in the edge, so that a replay makes the same choices"""
        self.opno = getattr(self, "opno", 0) + 1
        return bool(zlib.crc32(repr((self.opno, o)).encode()) & 1)

    def apply(self, objs, o):
        f = objs[o[1]]
        if o[0] == "add":
            key = self.rk(o[2])
            if self.alt(o):
                return f.add_alt(f.hashes(key), o[3]) if self.counting else f.add_alt(f.hashes(key))
            return f.add(key, o[3]) if self.counting else f.add(key)
        if o[0] == "rem":
            key = self.rk(o[2])
            r = f.remove_alt(f.hashes(key), o[3]) if self.alt(o) else f.remove(key, o[3])
            if f.elements_added < 0:       # a removal from a union / intersection result took its (estimated) counter below zero: cannot be
                self.negative = True       # exported any more (known finding D26)
            return r
        if o[0] == "clear":
            return f.clear()
        if o[0] == "chk":
            key = self.rk(o[2])
            return f.check_alt(f.hashes(key)) if self.alt(o) else f.check(key)
        if o[0] == "bad":      # a call the library rejects: a hash list that is too short; the caller catches the error and carries on
            hs = list(f.hashes(self.rk(o[2])))[: self.K - 1]
            try:
                if o[3] == 1:
                    f.add_alt(hs, 1) if self.counting else f.add_alt(hs)
                elif o[3] == 2:
                    f.remove_alt(hs, 1)
                else:
                    f.check_alt(hs)
            except Exception:  # noqa
                return None
            raise Unmodelled("the malformed call was accepted")
        if o[0] == "setn":     # the public setter of the counter
            f.elements_added = o[3]
            return None
        if o[0] == "est":      # the statistics are queries too
            return (f.estimate_elements(), f.current_false_positive_rate(), str(f))
        if o[0] == "rt":
            objs[o[1]] = self.reload(f, o[2])
            return None
        if o[0] in ("uni", "int"):      # the result of the binary operation becomes filter o[1]
            r = objs["A"].union(objs["B"]) if o[0] == "uni" else objs["A"].intersection(objs["B"])
            if r is None:
                raise RuntimeError("binary operation on compatible operands returned None")
            if getattr(f, "is_on_disk", False):
                self.release({"x": f})
            objs[o[1]] = r
            if r.elements_added < 0:       # the documented "cannot estimate: every cell is set" value; such a result cannot be exported (known finding D25)
                self.sentinel = True
            return None

    def reload(self, f, channel):
        hf = f.hash_function
        if f.is_on_disk:  # close and reopen the same file
            path = self.pathof(f)
            f.close()
            g = self.BFD(path, hash_function=hf)
            self.paths[id(g)] = path
            return g
        cls = self.CBF if self.counting else self.BF
        if channel == "hex":
            return cls(hex_string=f.export_hex(), hash_function=hf)
        if channel == "file":
            self.seq += 1
            path = os.path.join(self.tmp, f"rl{self.seq}.blm")
            f.export(path)
            g = cls(filepath=path, hash_function=hf)
            os.unlink(path)
            return g
        return cls.frombytes(vary_buf(bytes(f), self.opno), hash_function=hf)

    def cells(self, f):
        if self.counting:
            return list(f.bloom)
        raw = bytes(f.bloom[: f.bloom_length]) if not f.is_on_disk else bytes(f.bloom[: f.bloom_length])
        return [(raw[i // 8] >> (i % 8)) & 1 for i in range(self.M)]

    def observe(self, f):
        return {
            "cells": self.cells(f),
            "n": f.elements_added,
            "est": {k: int(f.check_alt(f.hashes(self.rk(k))) if self.alt(k) else f.check(self.rk(k))) for k in self.keys},
            "in": {k: bool(self.rk(k) in f) for k in self.keys},
        }

    def build(self, table, hist):
        self.opno = 0
        self.sentinel = False
        self.negative = False
        hf = strategy_fn(self.strategy) if self.strategy else make_hash(table, size=self.M)
        if self.strategy == "fnv":
            hf = None  # the library default
        kinds = self.p.get("kinds", ("mem", "mem"))
        objs = {"A": self.new(kinds[0], hf), "B": self.new(kinds[1], hf)}
        for o in hist:
            self.apply(objs, o)
        return objs, hf

    def release(self, objs):
        for f in objs.values():
            if getattr(f, "is_on_disk", False):
                path = self.paths.pop(id(f), None)
                f.close()
                try:
                    os.unlink(path)
                except OSError:
                    pass

    # -- one transition --------------------------------------------------------------------------
    def edge(self, e):
        t = self.t
        table = {k: tuple(v) for k, v in e["pos"].items()}
        hist, o, exp = e["h"], e["a"], e["e"]
        if not self.patch_ok:
            t.extra["skipped_limit_patch_ineffective"] = t.extra.get("skipped_limit_patch_ineffective", 0) + 1
            return
        try:
            objs, hf = self.build(table, hist)
        except Exception as exc:  # noqa  a call of the history raised
            t.extra["skipped_history_raised"] = t.extra.get("skipped_history_raised", 0) + 1
            return
        if self.sentinel or self.negative:      # the history adopted a result whose counter is the -1 sentinel: its states cannot be observed through bytes()
            t.extra["skipped_history_unexportable_result"] = t.extra.get("skipped_history_unexportable_result", 0) + 1
            self.release(objs)
            return
        try:
            self._edge(t, table, hf, objs, hist, o, exp, e["ret"])
        finally:
            self.release(objs)

    def _edge(self, t, table, hf, objs, hist, o, exp, exp_ret):
        A, B = objs["A"], objs["B"]
        if A.number_bits != self.M or A.number_hashes != self.K:
            t.add_drift(ENGINE, {"geometry_expected": [self.M, self.K], "observed": [A.number_bits, A.number_hashes]})
            return
        t.evaluations += 1
        t.s2c += 1
        w = o[1]
        f = objs[w]
        kind = "counting" if self.counting else ("disk" if f.is_on_disk else "mem")
        sig = {"op": o[0], "kind": kind}
        before = self.observe(f)
        bytes_before = bytes(f)

        def rp(**kw):
            d = {"params": {k: v for k, v in self.p.items() if k != "tables"}, "table": table, "history": hist, "op": o, "expected": exp}
            d.update(kw)
            return d

        if t.focus == "C19":
            k19 = hash(repr((table, hist)))
            if k19 not in self.c19_seen:  # once per source state (the edges of one source state are consecutive)
                self.c19_seen.add(k19)
                self._c19(t, objs, hf, rp)
        raised = None
        ret = None
        try:
            ret = self.apply(objs, o)
            A, B = objs["A"], objs["B"]
            f = objs[w]
        except Unmodelled:
            t.extra["skipped_malformed_call_accepted"] = t.extra.get("skipped_malformed_call_accepted", 0) + 1
            return
        except Exception as exc:  # noqa
            raised = exc
        if raised is not None and o[0] == "rt":
            t.fail("C05", "C05.load_raises", ENGINE, rp(raised=repr(raised)), sig)
            return
        if raised is not None:
            t.fail("C16" if self.counting else "C01", "C16.returns" if self.counting else "C01.crash", ENGINE, rp(raised=repr(raised)), sig)
            if t.focus != ("C16" if self.counting else "C01"):
                raise raised      # a verdict for the property being checked too (<focus>.unexpected_exception, see s2c.safe_edge)
            return
        t.ok("C16", "C16.returns")
        if o[0] in ("uni", "int"):
            full = self.sentinel
            if t.focus == "C05":
                try:
                    bytes(f)
                    exported = True
                except Exception as exc:  # noqa
                    exported = repr(exc)
                t.check(exported is True, "C05", "C05.result_exportable", ENGINE, lambda: rp(raised=exported, elements_added=f.elements_added),
                        dict(sig, state="every_cell_set_counter_is_minus_one" if full else "ordinary"))
            if full:
                return
        if self.negative:
            if t.focus == "C05":
                try:
                    bytes(f)
                    exported = True
                except Exception as exc:  # noqa
                    exported = repr(exc)
                t.check(exported is True, "C05", "C05.result_exportable", ENGINE, lambda: rp(raised=exported, elements_added=f.elements_added),
                        dict(sig, state="counter_below_zero_after_removal_from_result"))
            return
        obs = {"A": self.observe(A), "B": self.observe(B)}
        rp2 = lambda **kw: rp(observed=obs, ret=ret, **kw)  # noqa
        for who in ("A", "B"):
            ex, ob = exp[who], obs[who]
            if self.counting:
                low = [k for k in self.keys if ob["est"][k] < min(ex["out"][k], self.cellmax)]
                t.check(not low, "C08", "C08.cb_lower", ENGINE, lambda: rp2(who=who, below=low), sig)
            else:
                miss = [k for k in self.keys if ex["out"][k] > 0 and not (ob["est"][k] and ob["in"][k])]
                t.check(not miss, "C01", "C01.present", ENGINE, lambda: rp2(who=who, missing=miss), dict(sig, kind="disk" if objs[who].is_on_disk else "mem"))
            want_n = ex["n"]
            if not ex["sat"] and not ex.get("npin"):  # the counter's documented meaning is stated below saturation (and above its lower limit)
                t.check(ob["n"] == want_n, "C14", "C14.count.cbloom" if self.counting else "C14.count.bloom", ENGINE, lambda: rp2(who=who), sig)
            if self.counting and o[0] != "bad":
                t.check(ob["cells"] == ex["cells"], "C16", "C16.no_half_update", ENGINE, lambda: rp2(who=who), sig)
            if ex["sat"] or ex.get("npin"):      # a pinned counter: at the upper limit, or at 0 when removals exceed what started as an estimate of distinct keys
                t.check(ob["n"] == want_n, "C16", "C16.total_pinned", ENGINE, lambda: rp2(who=who), sig)
            if ob["cells"] != ex["cells"] or ob["n"] != want_n:
                t.add_drift(ENGINE, {"table": table, "history": hist, "op": o, "who": who, "expected": ex, "observed": ob})
        if t.focus == "C19":
            # clear() = fresh, judged by what happens afterwards: a newly constructed filter fed only the calls made since the last clear()
            full = list(hist) + [o]
            cut = max((i for i, op in enumerate(full) if op[0] == "clear" and op[1] == w), default=None)
            if cut is not None and not any(op[0] in ("uni", "int") for op in full[cut + 1:]):
                g = {w: self.new("disk" if f.is_on_disk else "mem", hf)}
                try:
                    for op in full[cut + 1:]:
                        if op[1] == w:
                            self.apply(g, op)
                    og = self.observe(g[w])
                    same = og == obs[w] and bytes(g[w]) == bytes(f)
                    if f.is_on_disk:
                        same = same and open(self.pathof(f), "rb").read() == open(self.pathof(g[w]), "rb").read()
                    t.check(same, "C19", "C19.clear_then_behaves_fresh.bloom", ENGINE, lambda: rp2(fresh_object=og, since_clear=full[cut + 1:]), sig)
                finally:
                    self.release(g)
        if o[0] == "rt":
            ob = obs[w]
            t.check(ob["est"] == before["est"] and ob["in"] == before["in"], "C05", "C05.queries.bloom", ENGINE, rp2, dict(sig, channel=o[2]))
            t.check(bytes(f) == bytes_before, "C05", "C05.reexport.bloom", ENGINE, rp2, dict(sig, channel=o[2]))
        if o[0] == "clear":
            fresh = self.new("disk" if f.is_on_disk else "mem", hf)
            same = bytes(f) == bytes(fresh) and self.observe(f) == self.observe(fresh)
            if f.is_on_disk:
                same = same and open(self.pathof(f), "rb").read() == open(self.pathof(fresh), "rb").read()
                self.release({"x": fresh})
            t.check(same, "C19", "C19.clear_fresh.bloom", ENGINE, rp2, sig)
        if self.counting and o[0] == "rem" and not exp[w]["sat"]:
            # "removing what was added restores the filter exactly": below saturation a legitimate removal is determined cell by cell, also on
            # a union / intersection result (which owes what its operands owed, whatever its counter says)
            t.check(obs[w]["cells"] == exp[w]["cells"] and ret == exp_ret, "C08", "C08.cb_remove_exact", ENGINE, rp2, sig)
        if self.counting and o[0] in ("add", "rem"):
            t.check(ret == exp_ret, "C16", "C16.pinned_value", ENGINE, rp2, sig)
            sat = exp[w]["sat"]
            if sat:
                t.nontriv(hash(repr((table, hist, o)))) if t.focus == "C16" else None
            if o[0] == "add" and not sat and exp[w]["n"] < self.p["totmax"]:
                g = copy.deepcopy(f)
                r2 = g.remove(self.rk(o[2]), o[3])
                t.check(bytes(g) == bytes_before, "C08", "C08.cb_undo", ENGINE, lambda: rp2(after_undo=self.observe(g)), sig)
            if o[0] == "rem" and before["est"][o[2]] == 0:
                t.check(ret == 0 and bytes(f) == bytes_before, "C08", "C08.cb_absent_noop", ENGINE, rp2, sig)
        if t.focus in ("C12", "C13", "C14", "C16", "C01", "C19"):
            self._binary(t, table, hf, objs, hist, o, exp, obs, rp2, sig)
        if t.focus in ("C05", "C16", "C01", "C14"):
            # per observable state, and again after a clear / reload / adoption (the file or cached parts may lag behind the live object)
            key = hash(repr((table, obs[w]["cells"], obs[w]["n"], kind, o[0] if o[0] in ("clear", "rt", "uni", "int") else "", hist if self.p.get("histview") else "")))
            if key not in self.rt_seen:
                self.rt_seen.add(key)
                self._roundtrip(t, hf, f, obs[w], exp[w], rp2, sig)
        # non-trivial: a collision with another key's cells / coinciding positions
        if o[0] in ("add", "rem"):
            mine = {table[o[2]][i] % self.M for i in range(self.K)}
            others = set()
            for k in self.keys:
                if k != o[2] and exp[w]["out"][k] > 0:
                    others |= {table[k][i] % self.M for i in range(self.K)}
            if (mine & others) or len(mine) < self.K:
                if t.focus != "C16":
                    t.nontriv(hash(repr((table, hist, o))))
        t.sample({"geometry": [self.M, self.K], "kind": kind, "table": table, "history": hist[-4:], "op": o, "expected": exp[w]})

    def _binary(self, t, table, hf, objs, hist, o, exp, obs, rp2, sig):
        A, B = objs["A"], objs["B"]
        bA, bB = bytes(A), bytes(B)
        sigb = dict(sig, binary=True)
        try:
            u, u2 = A.union(B), B.union(A)
            x, x2 = A.intersection(B), B.intersection(A)
            j, j2 = A.jaccard_index(B), B.jaccard_index(A)
        except Exception as exc:  # noqa
            t.fail("C16" if self.counting else "C12", "C16.returns" if self.counting else "C12.crash", ENGINE, rp2(raised=repr(exc), binary=True), sigb)
            return
        ok = all(v is not None for v in (u, u2, x, x2, j, j2))
        t.check(ok, "C13", "C13.compatible_not_none", ENGINE, rp2, sigb)
        if not ok:
            return
        uc, xc = self.cells(u), self.cells(x)
        unsat = not self.counting or (not exp["A"]["sat"] and not exp["B"]["sat"] and all(c < self.cellmax for c in exp["U"]))
        if not unsat:  # C12 / C13 speak about unsaturated operands; saturation is C16's business
            for name, got, want in (("union", uc, exp["U"]), ("intersection", xc, exp["I"])):
                t.check(got == want, "C16", f"C16.{name}_clamped", ENGINE, lambda: rp2(result=got, which=name), sigb)
            t.check(bytes(A) == bA and bytes(B) == bB, "C13", "C13.operands_unchanged", ENGINE, rp2, sigb)
            return
        t.check(uc == exp["U"], "C12", "C12.cells", ENGINE, lambda: rp2(union=uc), sigb)
        t.check(self.cells(u2) == uc, "C13", "C13.symmetric_union", ENGINE, rp2, sigb)
        sup = [k for k in self.keys if (obs["A"]["est"][k] or obs["B"]["est"][k]) and not u.check(self.rk(k))]
        t.check(not sup, "C12", "C12.superset", ENGINE, lambda: rp2(missing=sup), sigb)
        if not self.counting:
            owed = [k for k in self.keys if (exp["A"]["out"][k] > 0 or exp["B"]["out"][k] > 0) and not u.check(self.rk(k))]
            t.check(not owed, "C01", "C01.present_after_union", ENGINE, lambda: rp2(missing=owed), sigb)
        else:
            low = [k for k in self.keys if u.check(self.rk(k)) < min(exp["A"]["out"][k] + exp["B"]["out"][k], self.cellmax)]
            t.check(not low, "C12", "C12.sum_lower", ENGINE, lambda: rp2(below=low), sigb)
        if t.focus == "C12" and not any(op[0] == "rem" for op in hist + [o]):  # literal form: one real structure fed all additions of both
            single = self.new("mem", hf)
            try:
                for who in ("A", "B"):
                    stream = []
                    for op in hist + [o]:
                        if op[1] != who:
                            continue
                        if op[0] == "clear":
                            stream = []
                        else:
                            stream.append(op)
                    for op in stream:
                        self.apply({who: single}, op)
                if not self.counting or all(c < self.cellmax for c in exp["U"]):
                    t.check(self.cells(single) == uc, "C12", "C12.cells_single_structure", ENGINE, lambda: rp2(single=self.cells(single), union=uc), sigb)
            except Exception:  # noqa  (an illegitimate interleaving for one stream: skip)
                pass
        t.check(xc == exp["I"], "C13", "C13.inter_bits", ENGINE, lambda: rp2(inter=xc), sigb)
        t.check(self.cells(x2) == xc, "C13", "C13.symmetric_intersection", ENGINE, rp2, sigb)
        both = [k for k in self.keys if obs["A"]["est"][k] and obs["B"]["est"][k] and not x.check(self.rk(k))]
        t.check(not both, "C13", "C13.inter_both", ENGINE, lambda: rp2(missing=both), sigb)
        num, den = exp["J"]
        t.check(j == num / den and isinstance(j, float), "C13", "C13.jaccard_value", ENGINE, lambda: rp2(jaccard=j), sigb)
        t.check(j == j2, "C13", "C13.symmetric_jaccard", ENGINE, lambda: rp2(jaccard=[j, j2]), sigb)
        t.check(0.0 <= j <= 1.0, "C13", "C13.jaccard_range", ENGINE, lambda: rp2(jaccard=j), sigb)
        if obs["A"]["cells"] == obs["B"]["cells"]:
            t.check(j == 1.0, "C13", "C13.jaccard_identical", ENGINE, lambda: rp2(jaccard=j), sigb)
        t.check(bytes(A) == bA and bytes(B) == bB, "C13", "C13.operands_unchanged", ENGINE, rp2, sigb)
        t.check(bytes(A) == bA and bytes(B) == bB, "C19", "C19.bloom_binary_operands_unchanged", ENGINE, rp2, sigb)
        # C19: results of set operations are reachable states too: clear() must reset them completely
        if t.focus == "C19":
            fresh = self.new("mem", hf)
            fb, fo = bytes(fresh), self.observe(fresh)
            for name, r in (("union", A.union(B)), ("intersection", A.intersection(B))):
                r.clear()
                t.check(bytes(r) == fb and self.observe(r) == fo, "C19", "C19.clear_fresh.bloom_result", ENGINE, lambda: rp2(which=name, after_clear=self.observe(r)), sigb)
        # C14: a union / intersection carries the estimate of distinct elements as its counter
        for name, r in (("union", u), ("intersection", x)):
            t.check(r.elements_added == r.estimate_elements(), "C14", "C14.binary_counter_is_estimate", ENGINE, lambda: rp2(which=name, n=r.elements_added), sigb)
        self._stats(t, A, rp2, sigb)
        self._stats(t, u, rp2, sigb)
        if t.focus in ("C12", "C13") and sum(exp["I"]) > 0:
            t.nontriv(hash(repr((table, exp["A"]["cells"], exp["B"]["cells"]))))

    def _stats(self, t, f, rp2, sig):
        """C14 statistics: standard functions of (set-bit count X, counter n); evaluated with an independent
        high-precision computation, accepted only away from rounding boundaries."""
        from decimal import Decimal, getcontext

        getcontext().prec = 50
        m, k = f.number_bits, f.number_hashes
        cells = self.cells(f)
        X = sum(1 for c in cells if c > 0)
        est = f.estimate_elements()
        if X >= m:
            t.check(est == -1, "C14", "C14.estimate_full", ENGINE, lambda: rp2(estimate=est), sig)
        else:
            exact = -(Decimal(m) / Decimal(k)) * (Decimal(1) - Decimal(X) / Decimal(m)).ln()
            fl = int(exact)
            if abs(exact - round(exact)) > Decimal("1e-9"):
                t.check(est == fl, "C14", "C14.estimate_formula", ENGINE, lambda: rp2(estimate=est, exact=str(exact)), sig)
        n = f.elements_added
        if n >= 0:
            cur = f.current_false_positive_rate()
            exact = (Decimal(1) - (Decimal(-k * n) / Decimal(m)).exp()) ** k
            t.check(abs(Decimal(cur) - exact) <= Decimal("1e-12") + exact * Decimal("1e-9"), "C14", "C14.current_fpr_formula", ENGINE,
                    lambda: rp2(current=cur, exact=str(exact)), sig)

    def _roundtrip(self, t, hf, f, ob, ex, rp2, sig):
        cls = self.CBF if self.counting else self.BF
        data = bytes(f)
        path = os.path.join(self.tmp, "rt.blm")
        try:
            if f.is_on_disk:
                f.export(path)
                payload = open(path, "rb").read()
                t.check(payload == data, "C05", "C05.channels_agree.bloom", ENGINE, rp2, sig)
            else:
                f.export(path)
                bio = io.BytesIO()
                f.export(bio)
                payload = open(path, "rb").read()
                t.check(payload == data == bio.getvalue(), "C05", "C05.channels_agree.bloom", ENGINE, rp2, sig)
        except Exception as exc:  # noqa
            t.fail("C05", "C05.export_raises", ENGINE, rp2(raised=repr(exc)), sig)
            return
        hx = f.export_hex()
        loads = [("frombytes", lambda: cls.frombytes(data, hash_function=hf)), ("filepath", lambda: cls(filepath=path, hash_function=hf)),
                 ("hex", lambda: cls(hex_string=hx, hash_function=hf))]
        if not self.counting:
            loads.append(("ondisk_open", lambda: self.BFD(path, hash_function=hf)))
        width = 4 if self.counting else 1
        t.check(bytes.fromhex(hx)[: -20] == data[: -20] and len(data) - 20 == (self.M * 4 if self.counting else (self.M + 7) // 8), "C05", "C05.hex_same_cells", ENGINE, rp2, sig)
        for name, mk in loads:
            s2 = dict(sig, channel=name)
            try:
                g = mk()
            except Exception as exc:  # noqa
                t.fail("C05", "C05.load_raises", ENGINE, rp2(channel=name, raised=repr(exc)), s2)
                continue
            o2 = self.observe(g)
            t.check(o2["est"] == ob["est"] and o2["in"] == ob["in"], "C05", "C05.queries.bloom", ENGINE, lambda: rp2(channel=name, loaded=o2), s2)
            if not self.counting:
                miss = [k for k in self.keys if ex["out"][k] > 0 and not o2["est"][k]]
                t.check(not miss, "C01", "C01.present_after_reload", ENGINE, lambda: rp2(channel=name, missing=miss), s2)
            t.check(o2["n"] == ob["n"], "C14", "C14.count.bloom_reload", ENGINE, lambda: rp2(channel=name, loaded=o2), s2)
            t.check((g.number_bits, g.number_hashes, g.estimated_elements, g.false_positive_rate, g.elements_added)
                    == (f.number_bits, f.number_hashes, f.estimated_elements, f.false_positive_rate, f.elements_added),
                    "C05", "C05.geometry.bloom", ENGINE, lambda: rp2(channel=name, loaded=o2), s2)
            t.check(bytes(g) == data and g.export_hex() == hx, "C05", "C05.reexport.bloom", ENGINE, lambda: rp2(channel=name, loaded=o2), s2)
            t.check(bytes(g) == data, "C16", "C16.exportable", ENGINE, lambda: rp2(channel=name), s2) if self.counting else None
            if name == "ondisk_open":
                g.close()
                t.check(open(path, "rb").read() == data, "C05", "C05.reopen_close_keeps", ENGINE, lambda: rp2(channel=name), s2)
        if t.focus == "C05" and (self.M % 8 != 0 or ob["n"] > 0):
            t.nontriv(hash(repr((ob["cells"], ob["n"], sig["kind"]))))

    def _c19(self, t, objs, hf, rp):
        for who, f in objs.items():
            kind = "counting" if self.counting else ("disk" if f.is_on_disk else "mem")
            b0 = bytes(f)
            o0 = self.observe(f)
            other = objs["B" if who == "A" else "A"]
            try:
                for k in self.keys + ["absent-key", b"bytes-key"]:
                    f.check(k)
                    k in f  # noqa
                    f.hashes(k)
                f.estimate_elements()
                f.current_false_positive_rate()
                str(f)
                f.export_hex()
                f.export_size()
                bytes(f)
                if not f.is_on_disk:
                    f.export(io.BytesIO())
                f.export(os.path.join(self.tmp, "c19.blm"))
                f.export_c_header(os.path.join(self.tmp, "c19.h"))
                other.union(f), other.intersection(f), other.jaccard_index(f)
            except Exception as exc:  # noqa
                t.fail("C19", "C19.query_raises", ENGINE, rp(raised=repr(exc), who=who), {"kind": kind})
                continue
            t.check(bytes(f) == b0 and self.observe(f) == o0, "C19", "C19.bloom_queries_unchanged", ENGINE, lambda: rp(who=who), {"kind": kind})
            if f.is_on_disk:
                t.check(open(self.pathof(f), "rb").read() == b0, "C19", "C19.ondisk_file_unchanged", ENGINE, lambda: rp(who=who), {"kind": kind})
            if o0["n"] > 0:
                t.nontriv(hash(repr((kind, o0["cells"], o0["n"]))))
            g = copy.deepcopy(f) if not f.is_on_disk else None
            if g is not None:
                g.clear()
                fresh = self.new("mem", hf)
                t.check(bytes(g) == bytes(fresh) and self.observe(g) == self.observe(fresh), "C19", "C19.clear_fresh.bloom", ENGINE, lambda: rp(who=who), {"kind": kind})


def profiles(tier, seed, light=False):
    P = []
    base = dict(keys=["a", "b", "c"], amts=[1], whos=["A", "B"], counting=False, cellmax=2, totmax=1000, maxn=2, maxdepth=4,
                channels=["bytes", "hex", "file"])
    if tier == "quick":
        P.append(dict(base, M=3, K=2, H=5, ntables=10, kinds=("mem", "mem")))
        P.append(dict(base, M=7, K=5, H=9, ntables=6, kinds=("mem", "disk"), maxdepth=3))
        P.append(dict(base, M=8, K=2, H=17, ntables=6, kinds=("disk", "mem"), maxdepth=3))
        P.append(dict(base, M=9, K=2, H=20, ntables=6, kinds=("mem", "mem"), maxdepth=3, bad=[3]))      # + look-ups the library rejects
        P.append(dict(base, M=3, K=2, H=5, ntables=4, kinds=("mem", "mem"), maxdepth=3, setn=[0], keys=["a", "b"]))      # + the counter set to 0 by the caller
        # counting, limits far away
        cb = dict(base, counting=True, amts=[1, 2], cellmax=1000, totmax=1000, maxn=2, maxdepth=3, whos=["A", "B"])
        P.append(dict(cb, M=3, K=2, H=5, ntables=8))
        P.append(dict(cb, M=4, K=3, H=7, ntables=5, keys=["a", "b"], bad=[1, 2]))      # + additions / removals the library rejects (hash list too short)
        P.append(dict(cb, M=3, K=2, H=5, ntables=3, keys=["a", "b"], setn=[0], amts=[1]))
        # counting, tiny patched limits (C16)
        P.append(dict(cb, M=3, K=2, H=5, ntables=8, cellmax=3, totmax=5, amts=[1, 2, 4], maxn=6, maxdepth=3, patch_limits=True, keys=["a", "b"]))
    else:
        P.append(dict(base, M=3, K=2, H=3, ntables=0, exhaustive=True, keys=["a", "b"], kinds=("mem", "mem"), maxdepth=4))
        P.append(dict(base, M=2, K=1, H=3, ntables=0, exhaustive=True, kinds=("mem", "disk"), maxdepth=4))
        for (M, K, H, kinds) in [(3, 2, 5, ("mem", "mem")), (4, 3, 7, ("disk", "disk")), (7, 5, 13, ("mem", "disk")), (8, 2, 17, ("disk", "mem")),
                                 (9, 2, 20, ("mem", "mem")), (16, 2, 33, ("mem", "disk")), (17, 2, 40, ("mem", "mem")), (15, 2, 31, ("disk", "mem"))]:
            P.append(dict(base, M=M, K=K, H=H, ntables=16, kinds=kinds, maxdepth=4))
        cb = dict(base, counting=True, amts=[1, 2], cellmax=1000, totmax=1000, maxn=3, maxdepth=4)
        P.append(dict(cb, M=3, K=2, H=3, ntables=0, exhaustive=True, keys=["a", "b"], maxdepth=3))
        for (M, K, H) in [(3, 2, 5), (4, 3, 7), (8, 2, 17), (5, 2, 9)]:
            P.append(dict(cb, M=M, K=K, H=H, ntables=8, bad=[1, 2, 3] if K == 3 or M == 5 else [], setn=[0, 1] if M == 3 else []))
        P.append(dict(base, M=3, K=2, H=5, ntables=8, kinds=("mem", "mem"), maxdepth=4, setn=[0, 1], keys=["a", "b"]))
        for (M, K, H) in [(3, 2, 5), (2, 1, 3), (4, 3, 7)]:
            P.append(dict(cb, M=M, K=K, H=H, ntables=8, cellmax=3, totmax=5, amts=[1, 2, 4, 7], maxn=8, maxdepth=4, patch_limits=True, keys=["a", "b"]))
    # every HISTORY (no state merging) of the smallest instances: behaviour after clear() / reload for every preceding history
    # and queries (check, the statistics) are operations of those histories
    hv = dict(base, M=3, K=2, H=5, ntables=3, whos=["A"], keys=["a", "b"], histview=True, maxadopt=0, maxn=5, queries=True,
              extra_tables=[{"a": (0, 3), "b": (1, 2)}])      # one key with coinciding probes, the other with two cells: different numbers of set bits
    P.append(dict(hv, kinds=("disk", "mem"), maxdepth=5, channels=["bytes"]))
    P.append(dict(hv, kinds=("mem", "mem"), maxdepth=4 if tier == "quick" else 5, channels=["bytes", "hex"]))
    P.append(dict(hv, counting=True, amts=[1], cellmax=1000, totmax=1000, maxdepth=4 if tier == "quick" else 5, channels=["bytes"]))
    # the strategies the properties quantify over, on real text / bytes keys (table = the strategy's own answers)
    strat = ["fnv", "md5", "sha256", "deco_int", "handwritten"] if tier == "quick" else ["fnv", "md5", "sha256", "deco_int", "deco_bytes", "handwritten"]
    geos = [(7, 5), (9, 2)] if tier == "quick" else [(3, 2), (7, 5), (8, 2), (9, 2), (17, 2), (13, 5)]
    for i, st in enumerate(strat):
        for j, (M, K) in enumerate(geos):
            if tier == "quick" and (i + j) % 2:
                continue
            P.append(dict(base, M=M, K=K, H=0, ntables=1, strategy=st, kinds=("mem", "disk") if (i + j) % 3 == 0 else ("mem", "mem"), maxdepth=3 if tier == "quick" else 4))
    P.append(dict(base, counting=True, amts=[1, 2], cellmax=1000, totmax=1000, maxn=2, maxdepth=3, M=4, K=3, H=0, ntables=1, strategy="fnv"))
    P.append(dict(base, counting=True, amts=[1, 2], cellmax=1000, totmax=1000, maxn=2, maxdepth=3, M=8, K=2, H=0, ntables=1, strategy="sha256"))
    if light and tier == "quick":  # cross-cutting properties ride on a reduced set of instances
        P = [dict(p, ntables=min(p["ntables"], 3)) for p in P if not p.get("patch_limits")]
    if light and tier == "thorough":    # ... and in the thorough tier on a third of the hash tables (the engine-specific properties take them all)
        P = [dict(p, ntables=max(2, p["ntables"] // 3)) if p["ntables"] else p for p in P if not p.get("patch_limits") and not p.get("exhaustive")]
    for i, p in enumerate(P):
        if p.get("strategy"):
            p["tables"] = [strategy_table(p["strategy"], p["keys"], p["K"], p["M"])]
        else:
            p["tables"] = gen_tables(p["keys"], p["M"], p["K"], p["H"], p["ntables"], seed * 1000 + i, p.get("exhaustive", False))
            p["tables"] += [t for t in p.get("extra_tables", []) if t not in p["tables"]]
    return P


FOCUS_FILTER = {
    "C08": lambda p: p["counting"],
    "C16": lambda p: p["counting"] and p.get("patch_limits"),
    "C01": lambda p: not p["counting"],
}


def run(focus, tier, seed):
    total = Tally(focus)
    jobs = []
    for p in profiles(tier, seed, focus in ("C05", "C14", "C19")):
        if (focus in FOCUS_FILTER and not FOCUS_FILTER[focus](p)) or (p.get("histview") and focus not in ("C19", "C05", "C14", "C01", "C08")):
            continue
        tabs = p["tables"]
        const = {k: v for k, v in p.items() if k != "tables"}
        const["tables"] = len(tabs)
        chunk = max(1, (len(tabs) + 3) // 4) if tier == "thorough" and len(tabs) > 12 else max(1, (len(tabs) + 2) // 3)
        for i in range(0, len(tabs), chunk):
            mod = mc_module(p, tabs[i:i + chunk])
            pp = {k: v for k, v in p.items() if k != "tables"}
            jobs.append(dict(module=mod, cfg=cfg(p, "both"), workers=1, timeout=3000, params=pp, tag=("mc", const)))
    # deeper histories: TLC simulation schedules over the same spec and tables
    nsim = 0
    for p in profiles(tier, seed, focus in ("C05", "C14", "C19")):
        if focus in FOCUS_FILTER and not FOCUS_FILTER[focus](p):
            continue
        if p.get("exhaustive") or p.get("histview") or (tier == "quick" and focus in ("C05", "C14", "C19")):
            continue
        ps = dict(p, maxdepth=14, maxn=5, maxreloads=2)
        const = {k: v for k, v in ps.items() if k != "tables"}
        const.update(tables=len(ps["tables"]), mode="simulate")
        pp = {k: v for k, v in ps.items() if k != "tables"}
        jobs.append(dict(module=mc_module(ps, ps["tables"]), cfg=cfg(ps, "both"), workers=1, timeout=3000, params=pp, tag=("mc", const),
                         simulate=(40 if tier == "quick" else 500), depth=14, seed=seed + 31 + nsim))
        nsim += 1
    total.exhaustive = False
    t, rs = s2c.run_s2c(MOD, focus, jobs, tlc_parallel=10)
    total.merge(t)
    agg = {}
    invprop = {"NoFalseNegative": "C01", "Monotone": "C01", "UnionSuperset": "C12", "UnionSumLower": "C12", "InterBoth": "C13", "JaccardOK": "C13",
               "CounterMeaning": "C14", "RemoveUndoesAdd": "C08", "SaturatedStays": "C16", "TypeOK": "C16"}
    for job, r in zip(jobs, rs):
        kind, const = job["tag"]
        total.extra["emitted"] = total.extra.get("emitted", 0) + r.emitted
        a = agg.setdefault(repr(const), {"spec": "BloomFamily", "constants": const, "mode": const.get("mode", "exhaustive+emit"), "generated": 0, "distinct": 0, "depth": 0, "wall_s": 0, "ok": True})
        a["generated"] += r.generated
        a["distinct"] += r.distinct
        a["depth"] = max(a["depth"], r.depth)
        a["wall_s"] = round(max(a["wall_s"], r.wall), 1)
        for inv in r.invariant_violations:
            a["ok"] = False
            prop = invprop.get(inv, focus)
            if const["counting"] and prop == "C01":
                prop = "C08"
            total.fail(prop, f"{prop}.model.{inv}", ENGINE, {"tlc": r.error_trace[:80] or r.tail[-30:], "constants": const}, {"model": inv})
    total.mc += list(agg.values())
    total.rules.append(
        "BloomFamily: every transition TLC generates for two filters A, B over a table-driven hash function (special collision shapes + seeded "
        "tables, exhaustive for the smallest geometry in the thorough tier) is executed on the real Bloom / on-disk / counting classes, and union, "
        "intersection and Jaccard of the pair are compared in every state; non-trivial = distinct (table, history, op) where the key's cells "
        "collide with another live key's cells or its K positions coincide (C16: a step in which a cell is clamped)"
    )
    total.assumptions.append("geometries up to 17 bits; the hash function is table-driven through hash_function=; C16 limits are the module constants patched to small values (real limits are covered by the limb trace check)")
    return total
