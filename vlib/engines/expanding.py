"""ExpandingBloomFilter / RotatingBloomFilter against spec/ExpandingBloom.tla.  Serves C09 C10 (+ C01 C05 C14 C19)."""
import io
import os
import shutil
import struct
import tempfile
import zlib

from ..core import Tally, vary_buf  # noqa: F401
from .. import s2c, tlc
from .bloomfam import GEOM, KEYMAP, gen_tables, make_hash, strategy_fn, strategy_table

ENGINE = "expanding"
MOD = "vlib.engines.expanding"


def mc_module(p, tables):
    tabs = ", ".join("[" + ", ".join(f"{k} |-> {tlc.tla_val(list(v))}" for k, v in sorted(t.items())) + "]" for t in tables)
    return (
        "MCExpanding",
        f"""---- MODULE MCExpanding ----
EXTENDS ExpandingBloom
cKeys == {tlc.tla_val(set(p['keys']))}
cTables == {{{tabs}}}
cChannels == {tlc.tla_val(set(p['channels']))}
====
""",
    )


def cfg(p):
    return f"""CONSTANTS
  Keys <- cKeys
  M = {p['M']}
  K = {p['K']}
  Tables <- cTables
  Est = {p['est']}
  QMax = {p.get('qmax', 1)}
  Rotating = {"TRUE" if p['rotating'] else "FALSE"}
  Channels <- cChannels
  MaxDepth = {p['maxdepth']}
  MaxSubs = {p['maxsubs']}
  MaxReloads = {p.get('maxreloads', 1)}
  Queries = {"TRUE" if p.get('queries') else "FALSE"}
INIT Init
NEXT Next
VIEW {"ViewH" if p.get("histview") else "View"}
CONSTRAINT Bound
INVARIANT SubCap
INVARIANT Growth
INVARIANT TotalIsCalls
INVARIANT QueueBound
INVARIANT AtLeastOne
INVARIANT Window
INVARIANT ExpandingKeeps
PROPERTY PresentAfterAdd
PROPERTY DupInsertsNothing
PROPERTY PopRefused
PROPERTY NoEarlyGrowth
ACTION_CONSTRAINT Emit
CHECK_DEADLOCK FALSE
"""


class Ctx:
    def __init__(self, tally, params):
        from probables import ExpandingBloomFilter, RotatingBloomFilter
        from probables.exceptions import RotatingBloomFilterError

        self.t = tally
        self.p = params
        self.E, self.R, self.RErr = ExpandingBloomFilter, RotatingBloomFilter, RotatingBloomFilterError
        self.rot = params["rotating"]
        self.keys = sorted(params["keys"])
        self.strategy = params.get("strategy")
        self.rk = (lambda k: KEYMAP.get(k, k)) if self.strategy else (lambda k: k)
        self.M, self.K, self.est = params["M"], params["K"], params["est"]
        self.fpr = params["fpr"]
        self.qmax = params.get("qmax", 1)
        self.tmp = tempfile.mkdtemp(prefix="exp-", dir=tlc.scratch_root())
        self.c19_seen = set()

    def close(self):
        shutil.rmtree(self.tmp, ignore_errors=True)

    def new(self, hf):
        if self.rot:
            return self.R(est_elements=self.est, false_positive_rate=self.fpr, max_queue_size=self.qmax, hash_function=hf)
        return self.E(est_elements=self.est, false_positive_rate=self.fpr, hash_function=hf)

    def reload(self, f, hf, channel):
        if channel == "bytes":
            b = bytes(f)
            b = vary_buf(b)
            return self.R.frombytes(b, max_queue_size=self.qmax, hash_function=hf) if self.rot else self.E.frombytes(b, hash_function=hf)
        path = os.path.join(self.tmp, "rt.ebf")
        if channel == "fileobj":
            with open(path, "wb") as fh:
                f.export(fh)
        else:
            f.export(path)
        if self.rot:
            return self.R(filepath=path, max_queue_size=self.qmax, hash_function=hf)
        return self.E(filepath=path, hash_function=hf)

    def parse(self, f):
        """public export -> (subs [[bits], n], footer)"""
        data = bytes(f)
        size, est, total, fpr = struct.unpack("QQQf", data[-28:])
        blen = (self.M + 7) // 8
        subs = []
        off = 0
        for _ in range(size):
            (n,) = struct.unpack("Q", data[off:off + 8])
            raw = data[off + 8:off + 8 + blen]
            subs.append({"bits": [(raw[i // 8] >> (i % 8)) & 1 for i in range(self.M)], "n": n})
            off += 8 + blen
        return subs, (size, est, total, fpr), off == len(data) - 28

    def observe(self, f):
        subs, footer, wellformed = self.parse(f)
        return {"subs": subs, "footer": footer, "wellformed": wellformed, "total": f.elements_added,
                "chk": {k: bool(f.check_alt(self.hashes_of(f, self.rk(k))) if self.alt(k) else f.check(self.rk(k))) for k in self.keys}, "in": {k: (self.rk(k) in f) for k in self.keys},
                "expansions": f.expansions, "qsize": f.current_queue_size if self.rot else len(subs)}

    def alt(self, o):
        """one model action, two entry points of the code (add / add_alt, check / check_alt), chosen deterministically per edge"""
        self.opno = getattr(self, "opno", 0) + 1
        return bool(zlib.crc32(repr((self.opno, o)).encode()) & 1)

    def hashes_of(self, f, key):
        """the structure has no hashes() of its own: a caller gets them from a Bloom filter of the same parameters"""
        from probables import BloomFilter

        return BloomFilter(est_elements=self.est, false_positive_rate=self.fpr, hash_function=f.hash_function).hashes(key)

    def step(self, f, hf, o, st):
        """apply one op; st = harness-side observational bookkeeping from the code's own answers"""
        if o[0] == "add":
            pre = bool(f.check(self.rk(o[1])))
            if self.alt(o):
                f.add_alt(self.hashes_of(f, self.rk(o[1])), bool(o[2]))
            else:
                f.add(self.rk(o[1]), bool(o[2]))
            st["calls"] += 1
            if o[2] or not pre:
                st["eff"] += 1
            if not pre:
                st["ins"][o[1]] = st["eff"]
                st["man"][o[1]] = False
            st["pre"] = pre
            return f
        if o[0] == "push":
            f.push()
            st["manual"] = True
            st["man"] = {k: True for k in self.keys}
            return f
        if o[0] == "pop":
            f.pop()
            st["manual"] = True
            st["man"] = {k: True for k in self.keys}
            return f
        if o[0] == "rt":
            return self.reload(f, hf, o[1])
        if o[0] == "chk":      # a look-up as an operation of the history
            key = self.rk(o[1])
            f.check_alt(self.hashes_of(f, key)) if self.alt(o) else f.check(key)
            return f
        if o[0] == "exp":      # an export without reload: the same object lives on
            bytes(f)
            return f

    def edge(self, e):
        t = self.t
        table = {k: tuple(v) for k, v in e["pos"].items()}
        hist, o, exp = e["h"], e["a"], e["e"]
        hf = make_hash(table, size=self.M)
        if self.strategy:
            hf = None if self.strategy == "fnv" else strategy_fn(self.strategy)
        f = self.new(hf)
        b0 = self.new(hf)
        self.opno = 0
        st = {"calls": 0, "eff": 0, "ins": {k: 0 for k in self.keys}, "man": {k: False for k in self.keys}, "manual": False, "pre": None}
        try:
            for op in hist:
                try:
                    f = self.step(f, hf, op, st)
                except self.RErr:
                    pass
        except Exception:  # noqa
            t.extra["skipped_history_raised"] = t.extra.get("skipped_history_raised", 0) + 1
            return
        t.evaluations += 1
        t.s2c += 1
        kind = "rotating" if self.rot else "expanding"
        sig = {"op": o[0], "kind": kind}
        before = self.observe(f)

        def rp(**kw):
            d = {"params": {k: v for k, v in self.p.items() if k != "tables"}, "table": table, "history": hist, "op": o, "expected": exp, "before": before}
            d.update(kw)
            return d

        if t.focus == "C19":
            k19 = hash(repr((table, hist)))
            if k19 not in self.c19_seen:
                self.c19_seen.add(k19)
                self._c19(t, f, before, rp, kind)
        raised = None
        try:
            f = self.step(f, hf, o, st)
        except self.RErr as exc:
            raised = exc
        except Exception as exc:  # noqa
            t.fail("C05" if o[0] == "rt" else ("C10" if self.rot else "C09"), "C05.load_raises" if o[0] == "rt" else "crash", ENGINE, rp(raised=repr(exc)), sig)
            return
        ob = self.observe(f)
        rp2 = lambda **kw: rp(observed=ob, bookkeeping=st, raised=repr(raised), **kw)  # noqa
        P = "C10" if self.rot else "C09"
        if o[0] == "pop" and before["qsize"] == 1:
            t.check(raised is not None and ob == before, "C10", "C10.pop_refused", ENGINE, rp2, sig)
        elif raised is not None:
            t.add_drift(ENGINE, {"table": table, "history": hist, "op": o, "raised": repr(raised)})
            return
        # bounds on every internal filter, read from the public export
        t.check(ob["wellformed"] and all(s["n"] <= self.est for s in ob["subs"]), P, f"{P}.cap", ENGINE, rp2, sig)
        t.check(len(ob["subs"]) >= 1, "C10" if self.rot else "C09", f"{P}.at_least_one", ENGINE, rp2, sig)
        if self.rot:
            t.check(1 <= ob["qsize"] <= self.qmax and len(ob["subs"]) == ob["qsize"], "C10", "C10.bounds", ENGINE, rp2, sig)
        t.check(ob["total"] == st["calls"] and ob["footer"][2] == st["calls"], P, f"{P}.dup_counted", ENGINE, rp2, sig)
        t.check(ob["total"] == st["calls"], "C14", f"C14.count.{kind}", ENGINE, rp2, sig)
        if o[0] == "add":
            t.check(ob["chk"][o[1]] and ob["in"][o[1]], "C10" if self.rot else "C01", "C10.present_after_add" if self.rot else "C01.present_after_add.expanding", ENGINE, rp2, sig)
            if st["pre"] and not o[2]:
                same = ob["subs"] == before["subs"] and ob["total"] == before["total"] + 1
                t.check(same, "C09" if not self.rot else "C10", "C09.dup_inserts_nothing" if not self.rot else "C10.dup_inserts_nothing", ENGINE, rp2, sig)
        if o[0] == "add" and len(ob["subs"]) > len(before["subs"]) and before["subs"]:
            # grows exactly when the newest filter is full - also after explicit pushes, where the closed formula below does not apply
            t.check(before["subs"][-1]["n"] >= self.est, P, f"{P}.no_early_growth", ENGINE, rp2, sig)
        if not self.rot:
            if not st["manual"]:
                want = 0 if st["eff"] == 0 else -(-st["eff"] // self.est) - 1
                t.check(ob["expansions"] == want and len(ob["subs"]) - 1 == want, "C09", "C09.growth", ENGINE, lambda: rp2(expected_expansions=want), sig)
            lost = [k for k in self.keys if st["ins"][k] > 0 and not ob["chk"][k]]
            t.check(not lost, "C01", "C01.present.expanding", ENGINE, lambda: rp2(lost=lost), sig)
        else:
            gone = [k for k in self.keys if st["ins"][k] > 0 and not st["man"][k] and st["eff"] - st["ins"][k] < (self.qmax - 1) * self.est and not ob["chk"][k]]
            t.check(not gone, "C10", "C10.window", ENGINE, lambda: rp2(gone=gone), sig)
        if o[0] == "rt":
            s2 = dict(sig, channel=o[1])
            t.check(ob["chk"] == before["chk"] and ob["in"] == before["in"], "C05", "C05.queries.expanding", ENGINE, rp2, s2)
            t.check(ob["footer"] == before["footer"] and ob["total"] == before["total"] and ob["expansions"] == before["expansions"]
                    and f.estimated_elements == self.est, "C05", "C05.geometry.expanding", ENGINE, rp2, s2)
            t.check(ob["subs"] == before["subs"], "C05", "C05.reexport.expanding", ENGINE, rp2, s2)
            if t.focus == "C05" and len(ob["subs"]) > 1:
                t.nontriv(hash(repr((table, ob["subs"], kind))))
        # drift against the model
        exsubs = [{"bits": s["bits"], "n": s["n"]} for s in exp["subs"]]
        if ob["subs"] != exsubs or ob["total"] != exp["total"] or ob["chk"] != exp["chk"] or st["eff"] != exp["eff"] or (raised is not None) != exp["err"]:
            t.add_drift(ENGINE, {"table": table, "history": hist, "op": o, "expected": exp, "observed": ob, "bookkeeping": st})
        grew = len(ob["subs"]) != len(before["subs"]) or (ob["subs"] and before["subs"] and ob["subs"][0] != before["subs"][0] and len(ob["subs"]) == len(before["subs"]) and o[0] != "add")
        if o[0] == "add" and (len(ob["subs"]) != len(before["subs"]) or (st["pre"] and not o[2]) or ob["subs"][:1] != before["subs"][:1]):
            if t.focus not in ("C05",):
                t.nontriv(hash(repr((table, hist, o))))
        t.sample({"kind": kind, "est": self.est, "qmax": self.qmax, "geometry": [self.M, self.K], "table": table, "history": hist[-5:], "op": o,
                  "expected": {"subs": exp["subs"], "total": exp["total"], "eff": exp["eff"]}})

    def _c19(self, t, f, before, rp, kind):
        try:
            for k in self.keys + ["absent-key"]:
                f.check(k)
                k in f  # noqa
            bytes(f)
            f.export(io.BytesIO())
            f.export(os.path.join(self.tmp, "c19.ebf"))
            f.expansions, f.elements_added, f.estimated_elements, f.false_positive_rate  # noqa
        except Exception as exc:  # noqa
            t.fail("C19", "C19.query_raises", ENGINE, rp(raised=repr(exc)), {"kind": kind})
            return
        t.check(self.observe(f) == before, "C19", "C19.expanding_queries_unchanged", ENGINE, rp, {"kind": kind})
        if self.rot and self.qmax > 1 and len(before["subs"]) > 1:
            # the same export loaded with a SMALLER max_queue_size: the loaded filter holds more filters than its limit until later additions
            # rotate them out - a reachable state; queries and exports must leave it alone too
            try:
                g = self.R.frombytes(bytes(f), max_queue_size=len(before["subs"]) - 1, hash_function=f.hash_function)
                # what the loaded filter says BEFORE anything is exported (an implementation may legitimately trim an over-long queue while
                # loading: only changes made by the queries / exports themselves count)
                look = lambda: ({k: bool(g.check(self.rk(k))) for k in self.keys}, g.current_queue_size, g.expansions, g.elements_added)  # noqa
                b0 = look()
                data = bytes(g)
                g.export(io.BytesIO())
                g.max_queue_size  # noqa
                same = look() == b0 and bytes(g) == data
            except Exception as exc:  # noqa
                t.fail("C19", "C19.query_raises", ENGINE, rp(raised=repr(exc), loaded_with_smaller_queue=True), {"kind": kind})
                return
            t.check(same, "C19", "C19.overlong_loaded_queue_queries_unchanged", ENGINE, lambda: rp(loaded_with_max_queue_size=len(before["subs"]) - 1), {"kind": kind})
        if before["total"] > 0:
            t.nontriv(hash(repr((kind, before["subs"], before["total"]))))


def profiles(tier, seed, light=False):
    P = []
    ch = ["bytes", "path"]
    base = dict(keys=["a", "b", "c", "d"], channels=ch, maxsubs=4)
    # (M, K) -> (est, fpr) from GEOM: est is both capacity and sizing input
    if tier == "quick":
        P.append(dict(base, rotating=False, M=3, K=2, est=1, fpr=0.35, H=5, ntables=5, maxdepth=4))
        P.append(dict(base, rotating=False, M=6, K=2, est=2, fpr=0.3, H=11, ntables=4, maxdepth=5, channels=["bytes"]))
        P.append(dict(base, rotating=True, qmax=2, M=3, K=2, est=1, fpr=0.35, H=5, ntables=4, maxdepth=4))
        P.append(dict(base, rotating=True, qmax=2, M=6, K=2, est=2, fpr=0.3, H=11, ntables=4, maxdepth=5, channels=["bytes"]))
        P.append(dict(base, rotating=True, qmax=1, M=5, K=2, est=2, fpr=0.35, H=9, ntables=3, maxdepth=4, channels=["path"]))
        P.append(dict(base, rotating=True, qmax=3, M=4, K=3, est=1, fpr=0.2, H=7, ntables=3, maxdepth=5, channels=["fileobj"]))
    else:
        for (M, K, est, fpr, H) in [(3, 2, 1, 0.35, 5), (6, 2, 2, 0.3, 11), (8, 2, 3, 0.3, 15), (7, 5, 1, 0.05, 13), (4, 1, 2, 0.45, 7)]:
            P.append(dict(base, rotating=False, M=M, K=K, est=est, fpr=fpr, H=H, ntables=16, maxdepth=6, channels=["bytes", "path", "fileobj"], maxsubs=5))
            for q in (1, 2, 3):
                P.append(dict(base, rotating=True, qmax=q, M=M, K=K, est=est, fpr=fpr, H=H, ntables=10, maxdepth=6, channels=["bytes", "path"], maxsubs=5))
    # every HISTORY (no state merging) of the smallest instances, look-ups and exports (without reload) being operations of the history
    # (MaxDepth counts the operation under test: depth 5 = histories of 4 operations + 1)
    hv = dict(base, keys=["a", "b"], ntables=2, histview=True, queries=True, channels=["bytes"], maxsubs=4, M=3, K=2, est=1, fpr=0.35, H=5, only_table=1)
    P.append(dict(hv, rotating=False, maxdepth=5))
    P.append(dict(hv, rotating=True, qmax=1, maxdepth=4 if tier == "quick" else 5))
    P.append(dict(hv, rotating=True, qmax=2, maxdepth=5))
    if tier != "quick":
        P.append(dict(hv, rotating=False, M=6, K=2, est=2, fpr=0.3, H=11, maxdepth=5, channels=[]))
    for i, st in enumerate(["fnv", "sha256", "deco_int"] if tier == "quick" else ["fnv", "md5", "sha256", "deco_int", "deco_bytes", "handwritten"]):
        P.append(dict(base, rotating=bool(i % 2), qmax=2, M=6, K=2, est=2, fpr=0.3, H=0, ntables=1, maxdepth=5 if tier == "quick" else 6, channels=["bytes"], strategy=st))
    if light and tier == "quick":
        P = [dict(p, ntables=min(p["ntables"], 2)) for p in P]
    if light and tier == "thorough":
        P = [dict(p, ntables=max(2, p["ntables"] // 3)) if p["ntables"] > 1 else p for p in P]
    for i, p in enumerate(P):
        assert GEOM[(p["M"], p["K"])] == (p["est"], p["fpr"]), p
        if p.get("strategy"):
            p["tables"] = [strategy_table(p["strategy"], p["keys"], p["K"], p["M"])]
            continue
        p["tables"] = gen_tables(p["keys"], p["M"], p["K"], p["H"], p["ntables"], seed * 1000 + 900 + i)
        if p.get("only_table") is not None:
            p["tables"] = p["tables"][p["only_table"]:p["only_table"] + 1]      # the first non-degenerate table (keys on different cells)
    return P


FOCUS_FILTER = {"C09": lambda p: not p["rotating"], "C10": lambda p: p["rotating"], "C01": lambda p: not p["rotating"]}
INVPROP = {"SubCap": None, "Growth": "C09", "TotalIsCalls": "C14", "QueueBound": "C10", "AtLeastOne": "C10", "Window": "C10", "ExpandingKeeps": "C01",
           "PresentAfterAdd": "C10", "DupInsertsNothing": "C09", "PopRefused": "C10", "NoEarlyGrowth": None}


def run(focus, tier, seed):
    total = Tally(focus)
    jobs = []
    for p in profiles(tier, seed, focus in ("C05", "C14", "C19")):
        if focus in FOCUS_FILTER and not FOCUS_FILTER[focus](p):
            continue
        tabs = p["tables"]
        const = {k: v for k, v in p.items() if k != "tables"}
        const["tables"] = len(tabs)
        chunk = max(1, (len(tabs) + 2) // 3)
        for i in range(0, len(tabs), chunk):
            pp = {k: v for k, v in p.items() if k != "tables"}
            jobs.append(dict(module=mc_module(p, tabs[i:i + chunk]), cfg=cfg(p), workers=1, timeout=3000, params=pp, tag=const))
    # deeper histories than the exhaustive bound reaches: TLC simulation schedules over the same spec
    nsim = 0
    for p in profiles(tier, seed, focus in ("C05", "C14", "C19")):
        if (focus in FOCUS_FILTER and not FOCUS_FILTER[focus](p)) or (tier == "quick" and focus in ("C05", "C14", "C19")) or p.get("histview"):
            continue
        ps = dict(p, maxdepth=16, maxsubs=6, maxreloads=2)
        const = {k: v for k, v in ps.items() if k != "tables"}
        const["tables"] = len(ps["tables"])
        const["mode"] = "simulate"
        pp = {k: v for k, v in ps.items() if k != "tables"}
        jobs.append(dict(module=mc_module(ps, ps["tables"]), cfg=cfg(ps), workers=1, timeout=3000, params=pp, tag=const,
                         simulate=(60 if tier == "quick" else 600), depth=16, seed=seed + 17 + nsim))
        nsim += 1
    total.exhaustive = False
    t, rs = s2c.run_s2c(MOD, focus, jobs, tlc_parallel=10)
    total.merge(t)
    agg = {}
    for job, r in zip(jobs, rs):
        const = job["tag"]
        a = agg.setdefault(repr(const), {"spec": "ExpandingBloom", "constants": const, "mode": const.get("mode", "exhaustive+emit"), "generated": 0, "distinct": 0, "depth": 0, "wall_s": 0, "ok": True})
        a["generated"] += r.generated
        a["distinct"] += r.distinct
        a["depth"] = max(a["depth"], r.depth)
        a["wall_s"] = round(max(a["wall_s"], r.wall), 1)
        for inv in r.invariant_violations:
            a["ok"] = False
            prop = INVPROP.get(inv) or ("C10" if const["rotating"] else "C09")
            total.fail(prop, f"{prop}.model.{inv}", ENGINE, {"tlc": r.error_trace[:80] or r.tail[-30:], "constants": const}, {"model": inv})
    total.mc += list(agg.values())
    total.rules.append(
        "ExpandingBloom: every transition TLC generates (add new/duplicate/forced of every key, push, pop, export+load through each channel) over "
        "table-driven hash functions is executed on the real Expanding/Rotating filter; the clauses use the code's own pre-add answers; non-trivial = "
        "distinct (table, history, op) that grows, rotates or is a suppressed duplicate"
    )
    total.assumptions.append("est_elements <= 3, max_queue_size <= 3, geometries from real constructor arguments, up to 4 keys")
    return total
