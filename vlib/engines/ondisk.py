"""C11: BloomFilterOnDisk under process kill.  Spec: spec/OnDiskBloom.tla (add split into its internal steps, Crash in
every intermediate state).  The harness replays TLC's operation-level histories on the real class with a sys.settrace
hook that reads the backing file (through its own descriptor) on every executed line / return inside probables/ :
that is exactly what a SIGKILL at that instant leaves behind (mapped stores and flushed writes are in the file,
Python-buffered bytes are not).  Every snapshot is judged against the history oracle and recovered by a real reopen."""
import os
import shutil
import zlib
import signal
import struct
import sys
import tempfile

from ..core import REPO, Tally  # noqa: F401
from .. import s2c, tlc
from .bloomfam import GEOM, gen_tables, make_hash

ENGINE = "ondisk"


class NotRealised(Exception):
    """a crash point of the model that the implementation never passes through"""

MOD = "vlib.engines.ondisk"


def mc_module(p, tables):
    tabs = ", ".join("[" + ", ".join(f"{k} |-> {tlc.tla_val(list(v))}" for k, v in sorted(t.items())) + "]" for t in tables)
    return ("MCOnDisk", f"""---- MODULE MCOnDisk ----
EXTENDS OnDiskBloom
cKeys == {tlc.tla_val(set(p['keys']))}
cTables == {{{tabs}}}
====
""")


def cfg(p):
    return f"""CONSTANTS
  Keys <- cKeys
  M = {p['M']}
  K = {p['K']}
  Tables <- cTables
  MaxAdds = {p['maxadds']}
  MaxCycles = {p['maxcycles']}
  MaxDepth = {p['maxdepth']}
INIT Init
NEXT Next
VIEW View
CONSTRAINT Bound
INVARIANT ContainsCompleted
INVARIANT NoForeignBits
INVARIANT CountCurrent
INVARIANT CountNotAhead
INVARIANT CountLagsByOne
INVARIANT ObjectAgrees
PROPERTY ReopenKeeps
PROPERTY CloseWritesCount
ACTION_CONSTRAINT Emit
CHECK_DEADLOCK FALSE
"""


class Ctx:
    def __init__(self, tally, params):
        from probables import BloomFilter, BloomFilterOnDisk

        self.t = tally
        self.p = params
        self.BF, self.BFD = BloomFilter, BloomFilterOnDisk
        self.keys = sorted(params["keys"])
        self.M, self.K = params["M"], params["K"]
        self.est, self.fpr = GEOM[(self.M, self.K)]
        self.blen = (self.M + 7) // 8
        self.root = tempfile.mkdtemp(prefix="ondisk-", dir=tlc.scratch_root())
        self.other = os.path.join(self.root, "elsewhere")
        os.makedirs(self.other)
        self.home = os.getcwd()
        self.n = 0
        self.libdir = str(REPO / "probables")
        self.kill_budget = params.get("kills", 0)
        self.fpr_bytes = struct.pack("f", self.fpr)

    def close(self):
        os.chdir(self.home)
        shutil.rmtree(self.root, ignore_errors=True)

    # -- file helpers ----------------------------------------------------------------------------
    def parse(self, data):
        if len(data) != self.blen + 20:
            return None
        est, cnt, fpr = struct.unpack("QQ4s", data[self.blen:])
        bits = [(data[i // 8] >> (i % 8)) & 1 for i in range(self.M)]
        pad = all(((data[i // 8] >> (i % 8)) & 1) == 0 for i in range(self.M, self.blen * 8))
        return {"bits": bits, "count": cnt, "est": est, "fpr": fpr, "pad": pad}

    def traced(self, path, fn):
        """run fn() recording the file content at every line/return event inside the library"""
        fd = os.open(path, os.O_RDONLY)
        snaps = []
        size = self.blen + 64
        lib = self.libdir
        kills = []

        def local(frame, event, arg):
            if event in ("line", "return"):
                data = os.pread(fd, size, 0)
                snaps.append((frame.f_code.co_name, frame.f_lineno, event, data))
                if self.kill_budget > 0 and len(snaps) % 7 == 3:
                    self.kill_budget -= 1
                    pid = os.fork()
                    if pid == 0:
                        os.kill(os.getpid(), signal.SIGKILL)
                        os._exit(0)
                    os.waitpid(pid, 0)
                    kills.append((data, os.pread(fd, size, 0)))
            return local

        def glob(frame, event, arg):
            if event == "call" and frame.f_code.co_filename.startswith(lib):
                return local
            return None

        snaps.append(("<before>", 0, "start", os.pread(fd, size, 0)))
        sys.settrace(glob)
        try:
            res = fn()
        finally:
            sys.settrace(None)
            snaps.append(("<after>", 0, "end", os.pread(fd, size, 0)))
            os.close(fd)
        return res, snaps, kills

    def newpath(self, rel):
        self.n += 1
        d = os.path.join(self.root, f"d{self.n}")
        os.makedirs(d)
        return d, f"f{self.n}.blm"

    def reopen(self, d, name, hf, variant):
        """open an existing file from some working directory, by relative or absolute name"""
        if variant % 2 == 0:
            os.chdir(self.other)
            return self.BFD(os.path.join(d, name), hash_function=hf)
        os.chdir(d)
        f = self.BFD(name, hash_function=hf)
        os.chdir(self.other)
        return f

    # -- one transition --------------------------------------------------------------------------
    def edge(self, e):
        try:
            self._edge(e)
        finally:
            os.chdir(self.home)

    def _edge(self, e):
        t = self.t
        table = {k: tuple(v) for k, v in e["pos"].items()}
        hist, o, pre, exp, mids = e["h"], e["a"], e["pre"], e["e"], e["mids"]
        hf = make_hash(table)
        variant = hash(repr((table, hist))) & 3
        d, name = self.newpath(variant)
        os.chdir(d)
        f = self.BFD(name if variant & 1 else os.path.join(d, name), est_elements=self.est, false_positive_rate=self.fpr, hash_function=hf)
        if f.number_bits != self.M or f.number_hashes != self.K:
            t.add_drift(ENGINE, {"geometry_expected": [self.M, self.K], "observed": [f.number_bits, f.number_hashes]})
            f.close()
            return
        os.chdir(self.other)
        state = {"f": f, "d": d, "name": name, "open": True, "ops": [], "hkey": repr(hist)}
        try:
            for op in hist:
                self.do(state, hf, table, op, None, variant)
        except Exception as exc:  # noqa
            t.extra["skipped_history_raised"] = t.extra.get("skipped_history_raised", 0) + 1
            self.dispose(state)
            return
        t.evaluations += 1
        t.s2c += 1
        sig = {"op": o[0]}

        def rp(**kw):
            dd = {"params": {k: v for k, v in self.p.items() if k != "tables"}, "table": table, "history": hist, "op": o, "pre": pre, "expected": exp, "path_variant": variant}
            dd.update(kw)
            return dd

        try:
            self.do(state, hf, table, o, (t, pre, exp, mids, rp, sig), variant)
        except NotRealised:
            t.extra["skipped_crash_point_not_realised"] = t.extra.get("skipped_crash_point_not_realised", 0) + 1
        except Exception as exc:  # noqa
            import traceback

            if s2c.raised_in_library(traceback.extract_tb(exc.__traceback__)) is None:
                self.dispose(state)
                raise      # raised by the harness itself: a failure of the machinery (exit 2), never a verdict
            t.fail("C11", "C11.operation_raises", ENGINE, rp(raised=repr(exc), tb=traceback.format_exc()[-1500:]), sig)
        self.dispose(state)
        t.sample({"geometry": [self.M, self.K], "table": table, "history": hist[-5:], "op": o, "expected": exp})

    def dispose(self, state):
        try:
            if state["open"]:
                state["f"].close()
        except Exception:  # noqa
            pass
        shutil.rmtree(state["d"], ignore_errors=True)

    def path(self, state):
        return os.path.join(state["d"], state["name"])

    def judge_snaps(self, ctx, snaps, key, table, during):
        """the C11 clauses on every snapshot taken while an operation was in progress"""
        t, pre, exp, mids, rp, sig = ctx
        cb, sb, done = pre["cb"], pre["sb"], pre["done"]
        kpos = {table[key][i] % self.M for i in range(self.K)} if key else set()
        orig = None
        distinct = []
        for (fn, line, ev, data) in snaps:
            s = self.parse(data)
            where = {"function": fn, "line": line, "event": ev, "during": during}
            ok = s is not None and s["est"] == self.est and s["fpr"] == self.fpr_bytes and s["pad"]
            t.check(ok, "C11", "C11.wellformed", ENGINE, lambda: rp(snapshot=data.hex(), at=where), sig)
            if not ok:
                continue
            t.check(all(s["bits"][i] for i in range(self.M) if cb[i]), "C11", "C11.contains_completed", ENGINE, lambda: rp(snapshot=s, at=where), sig)
            allowed = [sb[i] or (i in kpos) for i in range(self.M)]
            t.check(all(allowed[i] for i in range(self.M) if s["bits"][i]), "C11", "C11.no_foreign_bits", ENGINE, lambda: rp(snapshot=s, at=where), sig)
            hi = done + 1 if key else done
            t.check(done <= s["count"] <= hi, "C11", "C11.count_current", ENGINE, lambda: rp(snapshot=s, at=where), sig)
            if s["count"] == done + 1:
                t.check(all(s["bits"][i] for i in kpos), "C11", "C11.count_not_ahead", ENGINE, lambda: rp(snapshot=s, at=where), sig)
            if not distinct or distinct[-1][1] != data:
                distinct.append((s, data, where))
        return distinct

    def recover(self, ctx, state, hf, snap, data, where, key, table, variant):
        """a process killed here leaves `data`: a new process must be able to open it and find everything committed"""
        t, pre, exp, mids, rp, sig = ctx
        d2, n2 = self.newpath(0)
        p2 = os.path.join(d2, n2)
        with open(p2, "wb") as fh:
            fh.write(data)
        try:
            g = self.reopen(d2, n2, hf, variant + 1)
            okk = all(g.check(k) for k in pre["committed"])
            cnt = g.elements_added
            g.close()
            after = open(p2, "rb").read()
            t.check(okk, "C11", "C11.recover_reports_completed", ENGINE, lambda: rp(snapshot=snap, at=where), sig)
            t.check(cnt == snap["count"], "C11", "C11.recover_count", ENGINE, lambda: rp(snapshot=snap, at=where, reported=cnt), sig)
            t.check(after == data, "C11", "C11.recover_close_keeps", ENGINE, lambda: rp(snapshot=snap, at=where, after=after.hex()), sig)
        except Exception as exc:  # noqa
            t.fail("C11", "C11.recover_opens", ENGINE, rp(snapshot=snap, at=where, raised=repr(exc)), sig)
        finally:
            shutil.rmtree(d2, ignore_errors=True)

    def do(self, state, hf, table, o, ctx, variant):
        f = state["f"]
        path = self.path(state)
        nm = o[0]
        state["ops"].append(o)
        if nm in ("add", "crashadd"):
            key = o[1]
            # one model action, two entry points of the code (add / add_alt with the key's hashes), chosen from the position in the history
            alt = bool(zlib.crc32(repr((len(state["ops"]), o[:2], variant)).encode()) & 1)
            adder = (lambda: f.add_alt(f.hashes(key))) if alt else (lambda: f.add(key))
            if ctx is None and nm == "add":
                adder()
                return
            _, snaps, kills = self.traced(path, adder)
            if ctx is not None:
                t, pre, exp, mids, rp, sig = ctx
                distinct = self.judge_snaps(ctx, snaps, key, table, "add")
                for a, b in kills:
                    t.check(a == b, "C11", "C11.kill_leaves_snapshot", ENGINE, lambda: rp(inproc=a.hex(), after_kill=b.hex()), sig)
                    t.extra["real_sigkills"] = t.extra.get("real_sigkills", 0) + 1
                t.extra["crash_points"] = t.extra.get("crash_points", 0) + len(snaps)
                for (s, data, where) in distinct:
                    self.recover(ctx, state, hf, s, data, where, key, table, variant)
                    if 0 < distinct.index((s, data, where)) < len(distinct) - 1:
                        t.nontriv(hash((repr(table), repr(state.get("hkey")), repr(o), data)))
                # conformance: the distinct file states are the model's intermediate states, in order
                want = []
                for m in mids:
                    w = (m["bits"], m["count"])
                    if not want or want[-1] != w:
                        want.append(w)
                got = [(s["bits"], s["count"]) for (s, _, _) in distinct]
                if got != want:
                    t.add_drift(ENGINE, {"table": table, "op": o, "expected_file_states": want, "observed_file_states": got})
                last = self.parse(snaps[-1][3])
                if nm == "add":
                    t.check(last is not None and last["count"] == pre["done"] + 1 and all(last["bits"][i] for i in range(self.M) if exp["bits"][i]),
                            "C11", "C11.add_committed", ENGINE, lambda: rp(final=last), sig)
                    t.check(f.elements_added == pre["done"] + 1, "C14", "C14.count.ondisk", ENGINE, lambda: rp(reported=f.elements_added), sig)
            if nm == "crashadd":
                # the process dies in the model's intermediate file state number o[2]: only that file survives
                idx = o[2]
                target = None
                # find the snapshot equal to the model's state (bits so far, count)
                kpos = [table[key][i] % self.M for i in range(self.K)]
                first = self.parse(snaps[0][3])
                bits = list(first["bits"])
                cnt = first["count"]
                for x in range(min(idx - 1, self.K)):
                    bits[kpos[x]] = 1
                if idx >= self.K + 3:
                    cnt += 1
                for (_, _, _, data) in snaps:
                    s = self.parse(data)
                    if s and s["bits"] == bits and s["count"] == cnt:
                        target = data
                        break
                if target is None:      # this implementation does not pass through the model's intermediate file state (e.g. it stores all
                    raise NotRealised()  # bits of a byte at once): the crash history cannot be realised on it and is not judged
                f.close()  # the dying process' object; whatever it writes goes to the abandoned file
                d2, n2 = self.newpath(0)
                with open(os.path.join(d2, n2), "wb") as fh:
                    fh.write(target)
                shutil.rmtree(state["d"], ignore_errors=True)
                state.update(d=d2, name=n2, open=False, f=None)
            return
        if nm == "close":
            if ctx is None:
                f.close()
            else:
                t, pre, exp, mids, rp, sig = ctx
                _, snaps, _ = self.traced(path, f.close)
                self.judge_snaps(ctx, snaps, None, table, "close")
                t.extra["crash_points"] = t.extra.get("crash_points", 0) + len(snaps)
                data = open(path, "rb").read()
                s = self.parse(data)
                t.check(s is not None and s["count"] == pre["done"], "C11", "C11.close_count", ENGINE, lambda: rp(final=s), sig)
                if not pre["aborted"]:
                    mem = self.BF(est_elements=self.est, false_positive_rate=self.fpr, hash_function=hf)
                    for op in state["ops"]:
                        if op[0] == "add" or (op[0] == "crashadd" and op[2] >= self.K + 3):  # killed after the count reached the file
                            mem.add(op[1])
                        elif op[0] == "clear":
                            mem.clear()
                    t.check(bytes(mem) == data, "C11", "C11.close_equals_inmemory", ENGINE, lambda: rp(file=data.hex(), inmemory=bytes(mem).hex()), sig)
                if s and (s["bits"] != exp["bits"] or s["count"] != exp["count"]):
                    t.add_drift(ENGINE, {"table": table, "op": o, "expected": exp, "observed": s})
            state["open"] = False
            return
        if nm == "reopen":
            before = open(path, "rb").read()
            g = self.reopen(state["d"], state["name"], hf, variant)
            state.update(f=g, open=True)
            if ctx is not None:
                t, pre, exp, mids, rp, sig = ctx
                miss = [k for k in pre["committed"] if not g.check(k)]
                t.check(not miss, "C11", "C11.reopen_reports_keys", ENGINE, lambda: rp(missing=miss), sig)
                t.check(not miss, "C01", "C01.present_after_reopen", ENGINE, lambda: rp(missing=miss), sig)
                t.check(g.elements_added == exp["count"], "C11", "C11.reopen_reports_count", ENGINE, lambda: rp(reported=g.elements_added), sig)
                t.check(g.elements_added == exp["count"], "C14", "C14.count.ondisk_reopen", ENGINE, lambda: rp(reported=g.elements_added), sig)
                g.close()
                after = open(path, "rb").read()
                t.check(after == before, "C11", "C11.reopen_close_keeps", ENGINE, lambda: rp(before=before.hex(), after=after.hex()), sig)
                g = self.reopen(state["d"], state["name"], hf, variant + 1)
                t.check(g.elements_added == exp["count"] and all(g.check(k) for k in pre["committed"]), "C11", "C11.any_cwd", ENGINE, rp, sig)
                state.update(f=g)
                if pre["done"] > 0:
                    t.nontriv(hash((repr(table), before)))
            return
        if nm == "export":
            dest = os.path.join(state["d"], "export.blm")
            if ctx is None:
                f.export(dest)
            else:
                t, pre, exp, mids, rp, sig = ctx
                _, snaps, _ = self.traced(path, lambda: f.export(dest))
                self.judge_snaps(ctx, snaps, None, table, "export")
                t.extra["crash_points"] = t.extra.get("crash_points", 0) + len(snaps)
                t.check(open(dest, "rb").read() == open(path, "rb").read(), "C11", "C11.export_current", ENGINE, rp, sig)
                t.check(open(dest, "rb").read() == open(path, "rb").read(), "C05", "C05.ondisk_export_is_file", ENGINE, rp, sig)
            return
        if nm == "clear":
            f.clear()
            if ctx is not None:
                t, pre, exp, mids, rp, sig = ctx
                s = self.parse(open(path, "rb").read())
                t.check(s is not None and s["count"] == 0 and not any(s["bits"]), "C19", "C19.clear_fresh.ondisk", ENGINE, lambda: rp(final=s), sig)
            return
        raise ValueError(o)


def profiles(tier, seed):
    P = []
    base = dict(keys=["a", "b", "c"], maxadds=3, maxcycles=2, maxdepth=6)
    if tier == "quick":
        P.append(dict(base, M=3, K=2, H=5, ntables=4, kills=8))
        P.append(dict(base, M=7, K=5, H=13, ntables=2, maxadds=2, maxdepth=5))
        P.append(dict(base, M=8, K=2, H=17, ntables=3, maxadds=2, maxdepth=5))
        P.append(dict(base, M=9, K=2, H=19, ntables=3, maxadds=2, maxdepth=5))
    else:
        for (M, K, H, n) in [(3, 2, 5, 16), (7, 5, 13, 8), (8, 2, 17, 12), (9, 2, 19, 12), (16, 2, 33, 8), (17, 2, 35, 8), (4, 3, 7, 10), (10, 3, 21, 8)]:
            P.append(dict(base, M=M, K=K, H=H, ntables=n, maxadds=3, maxcycles=3, maxdepth=8, kills=30))
    for i, p in enumerate(P):
        p["tables"] = gen_tables(p["keys"], p["M"], p["K"], p["H"], p["ntables"], seed * 1000 + 1300 + i)
    return P


def run(focus, tier, seed):
    total = Tally(focus)
    jobs = []
    for p in profiles(tier, seed):
        tabs = p["tables"]
        const = {k: v for k, v in p.items() if k != "tables"}
        const["tables"] = len(tabs)
        chunk = max(1, (len(tabs) + 3) // 4)
        for i in range(0, len(tabs), chunk):
            pp = {k: v for k, v in p.items() if k != "tables"}
            jobs.append(dict(module=mc_module(p, tabs[i:i + chunk]), cfg=cfg(p), workers=1, timeout=3000, params=pp, tag=const))
    t, rs = s2c.run_s2c(MOD, focus, jobs, tlc_parallel=10, batch=300)
    total.merge(t)
    agg = {}
    for job, r in zip(jobs, rs):
        const = job["tag"]
        a = agg.setdefault(repr(const), {"spec": "OnDiskBloom", "constants": const, "mode": "exhaustive+emit", "generated": 0, "distinct": 0, "depth": 0, "wall_s": 0, "ok": True})
        a["generated"] += r.generated
        a["distinct"] += r.distinct
        a["depth"] = max(a["depth"], r.depth)
        a["wall_s"] = round(max(a["wall_s"], r.wall), 1)
        for inv in r.invariant_violations:
            a["ok"] = False
            total.fail("C11", f"C11.model.{inv}", ENGINE, {"tlc": r.error_trace[:80] or r.tail[-30:], "constants": const}, {"model": inv})
    total.mc += list(agg.values())
    total.rules.append(
        "OnDiskBloom: every operation-level history TLC generates (add, add killed in each intermediate file state, close, reopen, export, clear) is "
        "replayed on the real BloomFilterOnDisk from varying working directories with relative/absolute paths; the operation of each emitted transition "
        "runs under sys.settrace and the file is snapshotted at every executed line/return of the library (evaluations counts transitions, crash_points "
        "the snapshots judged); every distinct snapshot is recovered by a real reopen; non-trivial = a crash point strictly inside an add (file differs "
        "from both the pre- and the post-state)"
    )
    total.assumptions.append("process kill only (a snapshot read through a second descriptor equals what SIGKILL leaves: checked on a sample with real fork+SIGKILL); power loss is outside the property")
    return total
