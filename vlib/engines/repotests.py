"""Code -> spec from the repository's OWN tests: the test-suite runs once under the recording plugin vlib/pytest_rec.py and
every structure the tests drive through the public single-key API becomes a trace that TLC validates with spec/TraceScale.tla
(the clauses are evaluated after every recorded call, not only where a test happens to assert)."""
import json
import os
import subprocess
import sys
import tempfile

from ..core import REPO, Tally
from .. import tlc
from . import scale

ENGINE = "repotests"
KINDS_OF = {"C01": {"bloom", "disk", "ebf"}, "C02": {"cms"}, "C03": {"cko", "ccko"}, "C04": {"qf"}, "C08": {"cbloom", "ccko"}, "C09": {"ebf"}, "C10": {"rbf"},
            "C14": {"bloom", "disk", "cbloom", "cms", "ebf", "rbf", "qf", "cko", "ccko"}}


def record(node=None):
    out = tempfile.NamedTemporaryFile(prefix="rec-", suffix=".json", dir=tlc.scratch_root(), delete=False).name
    here = os.path.dirname(os.path.dirname(os.path.dirname(os.path.abspath(__file__))))
    env = dict(os.environ, VERIF_REC_OUT=out, PYTHONPATH=f"{here}:{REPO}", PYTHONDONTWRITEBYTECODE="1")
    try:
        r = subprocess.run([sys.executable, "-m", "pytest", "-q", "-p", "no:cacheprovider", "-p", "vlib.pytest_rec", node or "tests"], cwd=REPO, env=env,
                           capture_output=True, text=True, timeout=900)
    except subprocess.TimeoutExpired:
        raise tlc.MachineryError("the repository's tests did not finish within 900 s under the recorder")
    tail = (r.stdout + r.stderr).strip().splitlines()[-3:]
    if not os.path.exists(out):
        raise tlc.MachineryError("recording the repository's tests produced no trace file:\n" + "\n".join(tail))
    traces = json.load(open(out))
    os.unlink(out)
    return traces, r.returncode, tail


def run(focus, tier, seed):
    total = Tally(focus)
    traces, rc, tail = record()
    total.extra["repo_tests_under_recorder"] = {"pytest_exit": rc, "tail": tail, "traces": len(traces)}
    if rc != 0:
        total.notes.append("the repository's tests did not all pass under the recorder (their own verdict, not a property verdict): " + " | ".join(tail))
    want = KINDS_OF.get(focus, set())
    traces = [t for t in traces if t["kind"] in want]
    for i, t in enumerate(traces):
        t["id"] = i
    if not traces:
        return total
    import concurrent.futures as cf

    nb = min(6, len(traces))
    chunks = [traces[i::nb] for i in range(nb)]
    with cf.ThreadPoolExecutor(max_workers=nb) as ex:
        results = list(ex.map(scale.validate, chunks))
    bytr = {t["id"]: t for t in traces}
    for verdicts, r in results:
        d = r.as_dict()
        d.update(spec="TraceScale", mode="trace-validation (repository tests)")
        total.mc.append(d)
        for tid, fails in verdicts.items():
            tr = bytr[tid]
            total.c2s += 1
            total.evaluations += len(tr["ev"])
            if len(tr["ev"]) >= 5:
                total.nontriv(hash((tr["test"], tr["cls"], len(tr["ev"]))))
            for clause, idx in fails:
                if clause.startswith("DRIFT"):
                    total.add_drift(ENGINE, {"test": tr["test"], "class": tr["cls"], "clause": clause, "event": idx})
                    continue
                prop = clause.split(".")[0]
                total.fail(prop, clause + ".repotests", ENGINE, {"test": tr["test"], "class": tr["cls"], "kind": tr["kind"], "event_index": idx,
                                                                "events": [{k: e[k] for k in ("op", "ks", "ret", "n", "probes")} for e in tr["ev"][max(0, idx - 5):idx]]},
                           {"kind": tr["kind"], "test": tr["test"].split(" ")[0]})
            for prop, cl in (("C01", "C01.present"), ("C02", "C02.bounds"), ("C03", "C03.kept"), ("C04", "C04.member"), ("C08", "C08.cb_lower"), ("C09", "C09.cap"),
                             ("C10", "C10.window"), ("C14", "C14.count")):
                total.ok(prop, cl + ".repotests", len(tr["ev"]))
    total.sample({"test": traces[0]["test"], "class": traces[0]["cls"], "events": [{k: e[k] for k in ("op", "ks", "n")} for e in traces[0]["ev"][:5]]})
    total.rules.append("Repository tests: the 312 tests run once under a recording plugin; every structure they drive through the public single-key API from an empty state "
                       "is a trace validated by TLC (TraceScale.tla); non-trivial = a trace with at least 5 recorded calls")
    total.exhaustive = False
    return total


def replay(body):
    """re-run the one test of a stored finding under the recorder and validate its traces again"""
    node = body["test"].split(" ")[0]
    traces, rc, tail = record(node)
    for i, t in enumerate(traces):
        t["id"] = i
    if not traces:
        return []
    verdicts, _ = scale.validate(traces)
    return sorted({c for fails in verdicts.values() for c, _ in fails if not c.startswith("DRIFT")})
