"""C07: derived sizes honour the requested accuracy.  spec/Sizing.tla decides the inequalities exactly (limb arithmetic on
the exact rational value of every float input); Bloom bit/hash counts are additionally compared with an independent
50-digit evaluation of the documented formula; geometry is re-derived after every load channel."""
import json
import os
import math
import random as _random
import struct
from decimal import Decimal, getcontext

from ..core import Tally  # noqa: F401
from .. import tlc
from .layout import geom

ENGINE = "sizing"
B = 32768


def L(n):
    out = []
    while True:
        out.append(n % B)
        n //= B
        if n == 0:
            return out


def ratio(x):
    num, den = float(x).as_integer_ratio()
    e = den.bit_length() - 1
    assert den == 1 << e
    return num, e


def ulps(x, k):
    for _ in range(abs(k)):
        x = math.nextafter(x, math.inf if k > 0 else 0.0)
    return x


def float_inputs(rnd, n_random, lo_exp=30):
    xs = []
    for k in range(1, lo_exp + 1):
        p = 2.0 ** -k
        for d in (-2, -1, 0, 1, 2):
            xs.append((ulps(p, d), abs(d) <= 2))
    for a in range(1, 33):
        for k in (1, 2, 3, 5, 8, 12, 16):
            x = a / 2.0 ** (k + 5)
            if 0 < x < 1:
                xs.append((x, False))
    for tiny in (1e-17, 2.0 ** -53, 2.0 ** -54, 1e-20, 5e-324, 1.0 - 2.0 ** -53, 0.9999999999999999):
        xs.append((tiny, True))
    for _ in range(n_random):
        xs.append((rnd.random() ** rnd.choice([1, 2, 4, 8]), False))
        xs.append((10 ** -rnd.uniform(0.1, 8), False))
    return [(x, near) for x, near in xs if 0 < x < 1]


def run(focus, tier, seed):
    import probables as P

    total = Tally(focus)
    rnd = _random.Random(seed + 99)
    nrand = 150 if tier == "quick" else 3000
    cases = []
    meta = {}
    # ---- count-min: confidence x error_rate
    fl = float_inputs(rnd, nrand)
    for idx, (er, near) in enumerate(fl):
        conf, near2 = fl[(idx * 7 + 3) % len(fl)]
        if er < 1e-8:
            continue
        try:
            s = P.CountMinSketch(confidence=conf, error_rate=er)
        except Exception as exc:  # noqa
            total.fail("C07", "C07.constructor_raises", ENGINE, {"kind": "cms", "confidence": conf, "error_rate": er, "raised": repr(exc)}, {"kind": "cms"})
            continue
        s2 = P.CountMinSketch(confidence=conf, error_rate=er)
        total.check((s.width, s.depth) == (s2.width, s2.depth), "C07", "C07.deterministic", ENGINE, {"kind": "cms", "confidence": conf, "error_rate": er}, {"kind": "cms"})
        n1, e1 = ratio(er)
        n2, e2 = ratio(conf)
        cid = len(cases)
        cases.append({"id": cid, "kind": "cms", "num": L(n1), "e": e1, "num2": L(n2), "e2": e2, "a": L(s.width), "b": s.depth, "c": [0]})
        meta[cid] = {"kind": "cms", "confidence": conf, "error_rate": er, "width": s.width, "depth": s.depth, "near": near or near2}
        if s.width * s.depth <= 4096 and idx % 9 == 0:
            try:
                g = P.CountMinSketch.frombytes(bytes(s))
                same = (g.width, g.depth) == (s.width, s.depth)
            except Exception as exc:  # noqa
                same = False
            total.check(same, "C07", "C07.stable_across_reload", ENGINE, {"kind": "cms", "confidence": conf, "error_rate": er, "width": s.width, "depth": s.depth}, {"kind": "cms"})
    # ---- cuckoo: error_rate x bucket_size
    for idx, (er, near) in enumerate(fl):
        for bs in ((1, 2, 3, 4, 5, 6, 7, 8, 12, 16) if idx % 3 == 0 else (4, (3, 5, 6, 7)[idx % 4])):      # powers of two and the sizes between them
            try:
                c = P.CuckooFilter.init_error_rate(er, capacity=4, bucket_size=bs)
                c2 = P.CountingCuckooFilter.init_error_rate(er, capacity=4, bucket_size=bs)
            except Exception as exc:  # noqa
                n0, e0 = ratio(er)
                if bs * (1 << (e0 + 1)) <= n0 * (1 << 32):  # the claim covers rates reachable with <= 32 fingerprint bits
                    total.fail("C07", "C07.constructor_raises", ENGINE, {"kind": "cuckoo", "error_rate": er, "bucket_size": bs, "raised": repr(exc)}, {"kind": "cuckoo"})
                continue
            fb = c.fingerprint_size_bits
            total.check(fb == c2.fingerprint_size_bits, "C07", "C07.deterministic", ENGINE, {"kind": "cuckoo", "error_rate": er, "bucket_size": bs}, {"kind": "cuckoo"})
            if fb > 32 or fb < 1:
                continue  # outside the claim (representable with <= 32 fingerprint bits)
            n1, e1 = ratio(er)
            cid = len(cases)
            cases.append({"id": cid, "kind": "cuckoo", "num": L(n1), "e": e1, "num2": [0], "e2": 0, "a": bs, "b": fb, "c": [0]})
            meta[cid] = {"kind": "cuckoo", "error_rate": er, "bucket_size": bs, "fingerprint_bits": fb, "near": near}
            if idx % 11 == 0:
                g = P.CuckooFilter.frombytes(bytes(c), error_rate=er)
                total.check(g.fingerprint_size_bits == fb and g.bucket_size == bs and g.capacity == 4, "C07", "C07.stable_across_reload", ENGINE,
                            {"kind": "cuckoo", "error_rate": er, "bucket_size": bs}, {"kind": "cuckoo"})
    # ---- Bloom: est_elements x rate
    getcontext().prec = 50
    ests = list(range(1, 41)) + [50, 63, 64, 100, 127, 128, 1000, 4096, 10007, 65536, 10**6]
    if tier == "thorough":
        ests += list(range(41, 201)) + [rnd.randint(200, 10**6) for _ in range(300)]
    rates = [0.5, 0.45, 0.4, 0.35, 0.3, 0.25, 0.2, 0.15, 0.1, 0.05, 0.03, 0.01, 0.001, 1e-4, 1e-6, 0.0625, 0.125, 0.25, 2.0 ** -10, 0.3333333, 0.999]
    rates += [r for r, _ in fl[:: (12 if tier == "quick" else 3)] if r > 1e-9]
    for est in ests:
        for fpr in (rates if est <= 40 or tier == "thorough" else rates[:16]):
            g = geom(est, fpr)
            try:
                b = P.BloomFilter(est_elements=est, false_positive_rate=fpr)
            except Exception as exc:  # noqa
                if g is not None and g[1] >= 1:
                    total.fail("C07", "C07.constructor_raises", ENGINE, {"kind": "bloom", "est": est, "rate": fpr, "raised": repr(exc)}, {"kind": "bloom"})
                continue
            m, k = b.number_bits, b.number_hashes
            total.evaluations += 1
            info = {"kind": "bloom", "est": est, "rate": fpr, "bits": m, "hashes": k, "independent": g[:2] if g else None}
            if g is not None:
                total.check((m, k) == (g[0], g[1]), "C07", "C07.bloom_formula", ENGINE, info, {"kind": "bloom"})
            total.check(k >= 1, "C07", "C07.bloom_hashes_positive", ENGINE, info, {"kind": "bloom"})
            p32 = Decimal(struct.unpack("f", struct.pack("f", fpr))[0])
            theo = (Decimal(1) - (-(Decimal(k) * est) / Decimal(m)).exp()) ** k
            total.check(theo <= p32 * Decimal("1.07"), "C07", "C07.bloom_rate_within_allowance", ENGINE, lambda: dict(info, theoretical=str(theo)), {"kind": "bloom"})
            for cls in (P.CountingBloomFilter,):
                c = cls(est_elements=est, false_positive_rate=fpr) if m <= 5000 else None
                if c is not None:
                    total.check((c.number_bits, c.number_hashes) == (m, k), "C07", "C07.deterministic", ENGINE, info, {"kind": "bloom"})
            if m <= 4096:
                for name, g2 in (("frombytes", P.BloomFilter.frombytes(bytes(b))), ("hex", P.BloomFilter(hex_string=b.export_hex()))):
                    total.check((g2.number_bits, g2.number_hashes, g2.estimated_elements) == (m, k, est), "C07", "C07.stable_across_reload", ENGINE,
                                lambda: dict(info, channel=name), {"kind": "bloom"})
            if m < 2**45:
                cid = len(cases)
                cases.append({"id": cid, "kind": "bloom", "num": L(est), "e": 0, "num2": [0], "e2": 0, "a": L(m), "b": 0, "c": L(k)})
                meta[cid] = dict(info, near=g is None)
    # ---- Bloom family: pairs where narrowing the rate to a 32-bit float changes the bit count (the documented rule sizes from the float32
    #      rate, which is also what the footer stores: a class that sizes from the double gets another geometry after a reload)
    import math
    import tempfile
    import shutil

    sens = []
    nrates = [0.24, 0.0576, 0.2858, 0.3, 0.1, 0.05, 0.01, 0.15, 0.35, 0.07, 0.2, 0.003, 0.45, 0.33, 0.6, 0.025]
    l2 = math.log(2) ** 2
    for est in range(2, 2600 if tier == "quick" else 12000):
        for fpr in nrates:
            p32f = struct.unpack("f", struct.pack("f", fpr))[0]
            if p32f != fpr and math.ceil(-est * math.log(fpr) / l2) != math.ceil(-est * math.log(p32f) / l2):
                sens.append((est, fpr))
    sens = sens[:: max(1, len(sens) // (24 if tier == "quick" else 200))]
    tmpd = tempfile.mkdtemp(prefix="sizing-", dir=tlc.scratch_root())
    try:
        for est, fpr in sens:
            g = geom(est, fpr)
            if g is None or g[0] > 60000:
                continue
            info = {"kind": "bloom_family", "est": est, "rate": fpr, "independent": g[:2], "float32_narrowing_changes_bit_count": True}
            path = os.path.join(tmpd, "s.blm")
            for cname, mk, loaders in (
                ("BloomFilter", lambda: P.BloomFilter(est_elements=est, false_positive_rate=fpr),
                 [("frombytes", lambda o: P.BloomFilter.frombytes(bytes(o))), ("hex", lambda o: P.BloomFilter(hex_string=o.export_hex()))]),
                ("CountingBloomFilter", lambda: P.CountingBloomFilter(est_elements=est, false_positive_rate=fpr),
                 [("frombytes", lambda o: P.CountingBloomFilter.frombytes(bytes(o))), ("hex", lambda o: P.CountingBloomFilter(hex_string=o.export_hex()))]),
                ("BloomFilterOnDisk", lambda: P.BloomFilterOnDisk(path, est_elements=est, false_positive_rate=fpr),
                 [("frombytes_inmemory", lambda o: P.BloomFilter.frombytes(bytes(o)))]),
                ("ExpandingBloomFilter", lambda: P.ExpandingBloomFilter(est_elements=est, false_positive_rate=fpr), []),
            ):
                try:
                    o = mk()
                except Exception as exc:  # noqa
                    total.fail("C07", "C07.constructor_raises", ENGINE, dict(info, cls=cname, raised=repr(exc)), {"kind": "bloom"})
                    continue
                total.evaluations += 1
                total.nontriv(hash((cname, est, fpr)))
                if cname == "ExpandingBloomFilter":
                    o.add("k")
                    raw = bytes(o)        # sub-filter record = 8-byte count + bit array, then the QQQf footer: the bit count shows in the length
                    total.check(len(raw) == 8 + (g[0] + 7) // 8 + 28, "C07", "C07.bloom_formula", ENGINE, dict(info, cls=cname, export_length=len(raw)), {"kind": "bloom"})
                    continue
                m, k = o.number_bits, o.number_hashes
                total.check((m, k) == (g[0], g[1]), "C07", "C07.bloom_formula", ENGINE, dict(info, cls=cname, bits=m, hashes=k), {"kind": "bloom"})
                for lname, ld in loaders:
                    try:
                        g2 = ld(o)
                        same = (g2.number_bits, g2.number_hashes, g2.estimated_elements) == (m, k, est)
                    except Exception as exc:  # noqa
                        same = False
                    total.check(same, "C07", "C07.stable_across_reload", ENGINE, dict(info, cls=cname, channel=lname, bits=m, hashes=k), {"kind": "bloom"})
                if cname == "BloomFilterOnDisk":
                    o.close()
                    try:
                        g2 = P.BloomFilterOnDisk(path)
                        same = (g2.number_bits, g2.number_hashes, g2.estimated_elements) == (m, k, est)
                        g2.close()
                    except Exception as exc:  # noqa
                        same = False
                    total.check(same, "C07", "C07.stable_across_reload", ENGINE, dict(info, cls=cname, channel="reopen", bits=m, hashes=k), {"kind": "bloom"})
                    os.unlink(path)
    finally:
        shutil.rmtree(tmpd, ignore_errors=True)
    total.extra["narrowing_sensitive_pairs"] = len(sens)
    # ---- TLC decides the inequalities
    nb = 8 if tier == "quick" else 15
    import concurrent.futures as cf

    def validate(chunk):
        verdicts = {}

        def on_json(j):
            if isinstance(j, dict) and "verdict" in j:
                verdicts[j["verdict"]] = j["fails"]

        cfg = "INIT Init\nNEXT Next\nINVARIANT LimbSanity\nCHECK_DEADLOCK FALSE\n"
        r = tlc.run_tlc("Sizing", cfg, workers=1, timeout=1800, on_json=on_json, files={"cases.json": json.dumps(chunk)})
        if len(verdicts) != len(chunk):
            raise tlc.MachineryError(f"Sizing: {len(verdicts)} verdicts for {len(chunk)} cases\n" + "\n".join(r.tail[-25:]))
        return verdicts, r

    chunks = [cases[i::nb] for i in range(nb)]
    with cf.ThreadPoolExecutor(max_workers=nb) as ex:
        results = list(ex.map(validate, [c for c in chunks if c]))
    for verdicts, r in results:
        d = r.as_dict()
        d.update(spec="Sizing", mode="case-validation")
        total.mc.append(d)
        for inv in r.invariant_violations:
            total.fail("C07", f"C07.model.{inv}", ENGINE, {"tlc": r.tail[-20:]}, {"model": inv})
        for cid, fails in verdicts.items():
            mt = meta[cid]
            total.c2s += 1
            if mt["kind"] != "bloom":
                total.evaluations += 1
            if mt.get("near"):
                total.nontriv(hash(repr(sorted(mt.items()))))
            for cl in {"cms": ("C07.cms_width", "C07.cms_depth"), "cuckoo": ("C07.cuckoo_fingerprint",), "bloom": ("C07.bloom_hashes",)}[mt["kind"]]:
                if cl in fails:
                    total.fail("C07", cl, ENGINE, mt, {"kind": mt["kind"], "shape": "near_power_of_two" if mt.get("near") else "other"})
                else:
                    total.ok("C07", cl)
    total.sample([meta[i] for i in list(meta)[:3]])
    total.rules.append(
        "Sizing: float inputs = every power of two 2^-1..2^-30 with its neighbours 1 and 2 ulps away, a dyadic grid, seeded random floats; for each the real "
        "constructor's geometry is judged by TLC in exact integer arithmetic (count-min width/depth, cuckoo fingerprint bits, Bloom hashes vs bits) and Bloom "
        "bits/hashes by an independent 50-digit evaluation; non-trivial = an input within 2 ulps of a power of two, or a Bloom input near a rounding boundary"
    )
    total.assumptions.append("Bloom bit count and the 7% allowance involve ln/exp: evaluated independently with 50-digit decimals in the harness (TLC has no reals), TLC cross-checks hashes vs bits with a rational enclosure of ln 2")
    return total
