"""C04 (+ C14, C19 for the quotient filter).  Spec: spec/QuotientFilter.tla.
TLC enumerates every reachable (set, quotient size) state of small universes designed for runs, clusters,
shifted runs and wrap-around; every generated transition is executed against the real class."""
import copy
import io
import signal

from ..core import Tally  # noqa: F401
from .. import s2c, tlc

ENGINE = "qf"
MOD = "vlib.engines.qf"

# universes: name -> (HB, [(hi, lo)])
UNIV = {
    # 8 home slots x 2 remainders (at q = 3); splits differently at q = 4
    "A": (5, [(hi, lo) for hi in range(0, 32, 4) for lo in (5, 77)]),
    # two home slots at the two ends of the table, long runs that wrap around the table end
    "B": (5, [(hi, lo) for hi in (0, 28) for lo in (1, 2, 3, 4, 5, 6)]),
    # mixed: remainders that differ in their high bits, neighbours around the wrap point
    "C": (5, [(hi, lo) for hi in (1, 5, 6, 7, 13, 30, 31) for lo in (3, 9)]),
    # 6-bit hi: sizes up to 2^6, three remainders per home slot
    "D": (6, [(hi, lo) for hi in (0, 8, 16, 24, 56) for lo in (1, 2, 3)]),
    # large tables (other remainder typecodes): 16-bit remainders ("I") and 8-bit remainders ("B"); both table ends
    "E": (16, [(hi, lo) for hi in (0, 1, 65535) for lo in (1, 65535)]),
    "F": (24, [(hi, lo) for hi in (0, 1, 16777215) for lo in (1, 255)]),
    # three / four hashes of one home slot at the end of the table (runs that wrap around): small enough to enumerate HISTORIES with look-ups
    "G": (5, [(28, 1), (28, 2), (28, 3)]),
    "H": (5, [(28, 1), (28, 2), (28, 3), (0, 1)]),
    # six home slots + a second remainder: enough elements to cross load factors 1/2 and 85/100 of an 8-slot table (setter instances)
    "I": (5, [(hi, 1) for hi in (0, 4, 8, 16, 24, 28)] + [(28, 2)]),
    # nine hashes for eight slots: the table can be filled completely and then offered one more
    "J": (5, [(hi, 1) for hi in (0, 4, 8, 12, 16, 20, 24, 28)] + [(28, 2)]),
}


def hval(hb, h):
    return (h[0] << (32 - hb)) | h[1]


def mc_module(univ, q0s, autos, rsz, merges, autoset=(), lfs=()):
    hb, hs = UNIV[univ]
    return (
        "MCQF",
        f"""---- MODULE MCQF ----
EXTENDS QuotientFilter
cU == {tlc.tla_val(set(tuple(h) for h in hs))}
cQ0s == {tlc.tla_val(set(q0s))}
cAutos == {tlc.tla_val(set(autos))}
cRsz == {tlc.tla_val(set(rsz))}
cMerge == {{{", ".join("<<" + tlc.tla_val(set(tuple(h) for h in T)) + ", " + str(q2) + ">>" for T, q2 in merges)}}}
cAutoSet == {tlc.tla_val(set(autoset))}
cLFs == {tlc.tla_val(set(tuple(x) for x in lfs))}
====
""",
    )


def cfg(univ, maxq, maxel, nparts, part, mode, hv=None):
    hv = hv or {}
    hb, _ = UNIV[univ]
    inv = """INVARIANT TypeOK
INVARIANT CountIsSize
PROPERTY SetSemantics
""" if hb > 8 else """INVARIANT TypeOK
INVARIANT CountIsSize
INVARIANT Fits
INVARIANT LookupExact
INVARIANT DecodeExact
INVARIANT AutoKeepsRoom
PROPERTY SetSemantics
PROPERTY RebuildResetsLF
"""
    return f"""CONSTANTS
  U <- cU
  HB = {hb}
  MaxQ = {maxq}
  MaxEl = {maxel}
  MaxDepth = {hv.get("maxdepth", 40)}
  Q0s <- cQ0s
  Autos <- cAutos
  Queries = {"TRUE" if hv.get("queries") else "FALSE"}
  RszArgs <- cRsz
  MergeOps <- cMerge
  AutoSet <- cAutoSet
  LFs <- cLFs
  NPARTS = {nparts}
  PART = {part}
  EmitLayout = {"TRUE" if hb <= 8 else "FALSE"}
INIT Init
NEXT Next
VIEW {"ViewH" if hv.get("histview") else "View"}
CONSTRAINT Bound
{inv if mode == "mc" else "ACTION_CONSTRAINT Emit"}
CHECK_DEADLOCK FALSE
"""


class _Timeout(Exception):
    pass


def _alarm(signum, frame):
    raise _Timeout()


def project(qf):
    if not all(hasattr(qf, a) for a in ("_is_occupied", "_is_continuation", "_is_shifted", "_filter")):
        return (qf.quotient, qf.elements_added, [], [], [], sorted(qf.get_hashes()))     # refactored internals: public projection only
    n = qf.num_elements
    if n > 1 << 12:
        return (qf.quotient, qf.elements_added, bytes(qf._is_occupied.bitarray), bytes(qf._is_continuation.bitarray), bytes(qf._is_shifted.bitarray), bytes(qf._filter))
    return (
        qf.quotient,
        qf.elements_added,
        [qf._is_occupied[i] for i in range(n)],
        [qf._is_continuation[i] for i in range(n)],
        [qf._is_shifted[i] for i in range(n)],
        list(qf._filter),
    )


class Ctx:
    def __init__(self, tally, params):
        from probables import QuotientFilter
        from probables.exceptions import QuotientFilterError

        self.t = tally
        self.QF = QuotientFilter
        self.QFE = QuotientFilterError
        self.univ = params["univ"]
        self.hb, self.hs = UNIV[self.univ]
        self.vals = [hval(self.hb, h) for h in self.hs]
        self.cache = {}
        self.timeouts = 0
        self.c19_seen = set()
        self.cur_ops = []
        signal.signal(signal.SIGVTALRM, _alarm)
        # budget of one transition in CPU seconds of this process (not wall clock: a loaded machine must not look like a hang); the
        # universes with 2^16 / 2^24 slots copy and scan big tables legitimately
        self.budget = 10 if self.hb <= 12 else 180

    def close(self):
        signal.setitimer(signal.ITIMER_VIRTUAL, 0)

    def apply(self, qf, o, ops=None):
        nm = o[0]
        if nm == "add":
            qf.add_alt(hval(self.hb, o[1]))
        elif nm == "rem":
            qf.remove_alt(hval(self.hb, o[1]))
        elif nm == "rsz":
            qf.resize(None if o[1] == 0 else o[1])
        elif nm == "chk":
            qf.check_alt(hval(self.hb, o[1]))
        elif nm == "auto":      # the setters are operations
            qf.auto_expand = o[1] == "T"
        elif nm == "lf":
            qf.max_load_factor = o[1] / o[2]
        elif nm == "mrg":
            second = self.QF(quotient=o[2], auto_expand=False)
            for h in sorted(hval(self.hb, x) for x in o[1]):
                second.add_alt(h)
            before = project(second)
            qf.merge(second)
            if ops is not None and o[2] < 12 and len(ops) < 2:
                # the merged-in filter lives on next to the receiver: it must stay the exact set it was (no state shared with the receiver)
                ops.append((second, sorted(hval(self.hb, x) for x in o[1])))
            return before == project(second)
        return True

    def source(self, c, hist):
        key = (c["q"], c["auto"], repr(hist))
        # the receiver and the filters merged into it are copied TOGETHER, so that state they (wrongly) share stays shared in the copy
        got = self.cache.get(key)
        if got is not None:
            qf, self.cur_ops = copy.deepcopy(got)
            return qf
        # longest cached prefix
        qf = None
        k = len(hist)
        while k > 0:
            k -= 1
            p = self.cache.get((c["q"], c["auto"], repr(hist[:k])))
            if p is not None:
                qf, self.cur_ops = copy.deepcopy(p)
                break
        if qf is None:
            k = 0
            qf = self.QF(quotient=c["q"], auto_expand=c["auto"])
            self.cur_ops = []
        try:
            for o in hist[k:]:
                self.apply(qf, o, self.cur_ops)
        except Exception:
            return None  # a call of the history raised: the property's antecedent is false
        if len(self.cache) > 20000:
            self.cache.clear()
        self.cache[key] = copy.deepcopy((qf, self.cur_ops))
        return qf

    def edge(self, e):
        t = self.t
        c, hist, o, exp = e["c"], e["h"], e["a"], e["e"]
        if self.timeouts >= 2:  # non-termination already established in this batch; do not burn the budget
            t.extra["skipped_after_timeouts"] = t.extra.get("skipped_after_timeouts", 0) + 1
            return
        try:
            try:
                signal.setitimer(signal.ITIMER_VIRTUAL, self.budget)
                self._edge(t, c, hist, o, exp, e.get("lay") or [])
            finally:
                signal.setitimer(signal.ITIMER_VIRTUAL, 0)
        except _Timeout:      # also when the signal arrives between the end of _edge and the reset above
            self.timeouts += 1
            t.fail("C04", "C04.terminates", ENGINE, {"cfg": c, "universe": self.univ, "history": hist, "op": o, "cpu_seconds": self.budget}, {"op": o[0]})

    def _edge(self, t, c, hist, o, exp, lay):
        qf = self.source(c, hist)
        if qf is None:
            t.extra["skipped_history_raised"] = t.extra.get("skipped_history_raised", 0) + 1
            return
        t.evaluations += 1
        t.s2c += 1
        hb = self.hb
        sig = {"op": o[0], "auto": c["auto"]}

        def rp(**kw):
            d = {"cfg": c, "universe": self.univ, "hb": hb, "history": hist, "op": o, "expected": exp}
            d.update(kw)
            return d

        if lay:  # drift check of the source state against the canonical layout
            pr = project(qf)
            got = [[pr[2][i], pr[3][i], pr[4][i], pr[5][i]] for i in range(len(pr[2]))]
            if got != lay:
                t.add_drift(ENGINE, {"cfg": c, "history": hist, "expected_layout": lay, "observed_layout": got})
        if t.focus == "C19":
            k19 = hash(repr((c, hist)))
            if k19 not in self.c19_seen:
                self.c19_seen.add(k19)
                self._c19(t, qf, rp)
        raised = None
        same2 = True
        try:
            same2 = self.apply(qf, o, self.cur_ops)
        except _Timeout:
            raise
        except Exception as exc:  # noqa
            raised = exc
        if raised is not None:
            if exp["err"] and isinstance(raised, self.QFE):
                # "no added key is ever reported absent": a call the filter rejects must not lose what it holds (the other clauses speak
                # about calls that did not raise; a merge rejected half-way may legitimately have added some of the other filter's hashes)
                kept = sorted(hval(hb, h) for h in exp["S"])
                missing = [v for v in kept if not qf.check_alt(v)]
                t.check(not missing, "C04", "C04.added_present_after_rejected_call", ENGINE, lambda: rp(raised=repr(raised), missing=missing), sig)
                return
            if not isinstance(raised, self.QFE):
                t.fail("C04", "C04.unexpected_error", ENGINE, rp(raised=repr(raised)), sig)
            else:
                t.add_drift(ENGINE, {"cfg": c, "history": hist, "op": o, "raised": repr(raised), "expected_err": exp["err"]})
            return
        if exp["err"]:
            t.add_drift(ENGINE, {"cfg": c, "history": hist, "op": o, "raised": None, "expected_err": True})
            return
        t.check(same2, "C19", "C19.qf_merge_operand_unchanged", ENGINE, rp, sig)
        for sec, want in self.cur_ops:
            try:
                okop = sorted(sec.get_hashes()) == want and sec.elements_added == len(want) and all(sec.check_alt(v) == (v in want) for v in self.vals)
            except _Timeout:
                raise
            except Exception:  # noqa
                okop = False
            t.check(okop, "C04", "C04.merged_operand_stays_exact", ENGINE, lambda: rp(operand_expected=want), sig)
            t.check(okop, "C19", "C19.qf_merge_operand_unchanged_later", ENGINE, lambda: rp(operand_expected=want), sig)
            try:      # C14 for the filter that was merged in and lives on: its counter is the size of what it lists
                cnt_ok = sec.elements_added == len(sec.get_hashes()) == len(want)
            except _Timeout:
                raise
            except Exception:  # noqa
                cnt_ok = False
            t.check(cnt_ok, "C14", "C14.count.qf_merged_operand", ENGINE, lambda: rp(operand_expected=want), sig)
        expS = sorted(hval(hb, h) for h in exp["S"])
        es = set(expS)
        # membership of every hash of the universe
        mem = [v for v in self.vals if qf.check_alt(v)]
        t.check(set(mem) == es, "C04", "C04.member", ENGINE, lambda: rp(observed_members=mem, expected_members=expS), sig)
        if qf.quotient >= 20:
            hs = None
        else:
          try:
            hs = qf.get_hashes()
            t.check(sorted(hs) == expS, "C04", "C04.hashes", ENGINE, lambda: rp(observed_hashes=sorted(hs), expected_hashes=expS), sig)
          except _Timeout:
            raise
          except Exception as exc:  # noqa
            t.fail("C04", "C04.hashes", ENGINE, rp(raised=repr(exc), expected_hashes=expS), sig)
        cnt = qf.elements_added
        t.check(cnt == len(expS), "C04", "C04.count", ENGINE, lambda: rp(observed_count=cnt), sig)
        t.check(cnt == len(expS), "C14", "C14.count.qf", ENGINE, lambda: rp(observed_count=cnt), sig)
        t.check(qf.load_factor == cnt / qf.num_elements, "C14", "C14.load_factor.qf", ENGINE, lambda: rp(load_factor=qf.load_factor), sig)
        if qf.quotient != exp["q"]:
            t.add_drift(ENGINE, {"cfg": c, "history": hist, "op": o, "expected_q": exp["q"], "observed_q": qf.quotient})
        if "lf" in exp and (qf.auto_expand != exp["auto"] or qf.max_load_factor != exp["lf"][0] / exp["lf"][1]):
            t.add_drift(ENGINE, {"cfg": c, "history": hist, "op": o, "expected_settings": [exp["auto"], exp["lf"]], "observed_settings": [qf.auto_expand, qf.max_load_factor]})
        # non-trivial: a shifted slot (=> a shifted run / cluster) or an element stored past the wrap point
        n = qf.num_elements
        if n > 1 << 12:
            if len(expS) >= 2:
                t.nontriv(hash((c["q"], c["auto"], repr(hist), repr(o))))
        elif hasattr(qf, "_is_shifted") and any(qf._is_shifted[i] for i in range(n)):
            t.nontriv(hash((c["q"], c["auto"], repr(hist), repr(o))))
        if o[0] in ("rem", "rsz", "mrg"):
            if t.focus == "C14":
                t.nontriv(hash((c["q"], c["auto"], repr(hist), repr(o))))
        t.sample({"cfg": c, "universe": self.univ, "history": hist[-5:], "op": o, "expected": exp})

    def _c19(self, t, qf, rp):
        before = project(qf)
        try:
            for v in self.vals:
                qf.check_alt(v)
            qf.check("some key")
            "another" in qf  # noqa
            qf.get_hashes()
            list(qf.hashes())
            buf = io.StringIO()
            qf.print(file=buf)
            qf.validate_metadata()
            qf.load_factor, qf.elements_added, qf.quotient, qf.remainder, qf.size, qf.bits_per_elm, qf.max_load_factor  # noqa
        except _Timeout:
            raise
        except Exception as exc:  # noqa
            t.extra["query_battery_raised"] = t.extra.get("query_battery_raised", 0) + 1
        after = project(qf)
        t.check(before == after, "C19", "C19.qf_queries_unchanged", ENGINE, lambda: rp(before=before, after=after), {"structure": "qf"})
        if isinstance(before[4], bytes):
            t.nontriv(hash(before[4])) if before[1] > 0 else None
        elif any(before[4]):
            t.nontriv(hash(repr(before)))
        elif before[1] > 0 and t.focus == "C19":
            t.nontriv(hash(repr(before)))


def profiles(tier, light=False):
    mA = [([(0, 5), (4, 5)], 3), ([(28, 77), (0, 77), (28, 5)], 3), ([(12, 5)], 4)]
    mB = [([(0, 1), (28, 6)], 3), ([(28, 1), (28, 2), (28, 3)], 3)]
    mC = [([(31, 3), (1, 3)], 3), ([(6, 9), (7, 9), (13, 3)], 4)]
    mD = [([(56, 1), (0, 1)], 3), ([(8, 1), (8, 2), (8, 3)], 5)]
    hvq = dict(q0s=[3], autos=[False], maxq=3, maxel=4, rsz=[], merges=[], histview=True, queries=True)
    # the two setters as operations: fill with growth off, switch it on (the next add grows a table that is already past the limit); lower /
    # raise the limit (1/2 is an exact boundary, 1/1 lets the table fill completely, 3/2 is never reached: a full table must reject the next
    # hash); every rebuild puts the default limit back
    sett = dict(univ="I", q0s=[3], autos=[False, True], maxq=4, maxel=7, rsz=[0, 3], merges=[], nparts=2, autoset=["T", "F"], lfs=[(1, 2), (1, 1), (3, 2)])
    # a table filled to the last slot, growth switched on only then, with a limit that lets it fill (1/1) or is never reached (3/2)
    full = dict(univ="J", q0s=[3], autos=[False, True], maxq=4, maxel=9, rsz=[], merges=[], nparts=3, autoset=["T"], lfs=[(1, 1), (3, 2)])
    if tier == "quick" and light:
        return [
            dict(hvq, univ="G", nparts=1, maxdepth=4),
            dict(univ="A", q0s=[3], autos=[False, True], maxq=4, maxel=2, rsz=[0, 3, 4], merges=mA[:1], nparts=1),
            dict(univ="B", q0s=[3], autos=[False], maxq=3, maxel=6, rsz=[0, 3], merges=mB[:1], nparts=1),
            dict(sett, maxel=5, nparts=1),
        ]
    if tier == "quick" or light:      # thorough tier of the cross-cutting properties: the full quick set
        return [
            dict(univ="A", q0s=[3], autos=[False, True], maxq=4, maxel=3, rsz=[0, 2, 3, 4], merges=mA, nparts=1),
            dict(univ="B", q0s=[3], autos=[False], maxq=3, maxel=8, rsz=[0, 3], merges=mB, nparts=1),
            dict(univ="C", q0s=[3], autos=[False, True], maxq=4, maxel=3, rsz=[0, 3, 4], merges=mC, nparts=1),
            dict(univ="E", q0s=[16], autos=[False], maxq=16, maxel=3, rsz=[16], merges=[], nparts=1),
            dict(univ="F", q0s=[24], autos=[False], maxq=24, maxel=2, rsz=[], merges=[], nparts=1),
            dict(hvq, univ="G", nparts=1, maxdepth=5),       # every history of 4 operations + 1, look-ups included
            sett,
            full,
        ]
    return [
        dict(hvq, univ="H", nparts=1, maxdepth=6),
        dict(univ="A", q0s=[3], autos=[False], maxq=3, maxel=8, rsz=[0, 3], merges=mA, nparts=12),
        dict(univ="A", q0s=[3, 4], autos=[False, True], maxq=5, maxel=5, rsz=[0, 2, 3, 4, 5], merges=mA, nparts=12),
        dict(univ="B", q0s=[3], autos=[False, True], maxq=4, maxel=9, rsz=[0, 3, 4], merges=mB, nparts=8),
        dict(univ="C", q0s=[3, 4], autos=[False, True], maxq=5, maxel=6, rsz=[0, 3, 4, 5], merges=mC, nparts=12),
        dict(univ="D", q0s=[3, 5], autos=[False, True], maxq=6, maxel=7, rsz=[0, 3, 4, 5, 6], merges=mD, nparts=8),
        dict(univ="E", q0s=[16], autos=[False, True], maxq=16, maxel=5, rsz=[16], merges=[], nparts=2),
        dict(univ="F", q0s=[24], autos=[False], maxq=24, maxel=4, rsz=[], merges=[], nparts=2),
        dict(sett, maxq=5, rsz=[0, 3, 4], merges=[([(28, 1), (28, 2), (0, 1), (4, 1), (8, 1)], 3)], nparts=8),
        dict(full, nparts=6, rsz=[0, 3]),
    ]


def run(focus, tier, seed):
    total = Tally(focus)
    jobs = []
    for p in profiles(tier, focus in ("C05", "C14", "C19")):
        mod = mc_module(p["univ"], p["q0s"], p["autos"], p["rsz"], p["merges"], p.get("autoset", ()), p.get("lfs", ()))
        const = {k: p[k] for k in ("univ", "q0s", "autos", "maxq", "maxel", "rsz", "autoset", "lfs") if k in p}
        # design level: TLC checks the invariants on the model
        if not p.get("histview"):
            jobs.append(dict(module=mod, cfg=cfg(p["univ"], p["maxq"], p["maxel"], 1, 0, "mc"), workers=2 if tier == "quick" else 4,
                             timeout=3000, tag=("mc", const)))
        # binding: emit every transition (partitioned over TLC processes), replay into the real class
        for i in range(p["nparts"]):
            jobs.append(dict(module=mod, cfg=cfg(p["univ"], p["maxq"], p["maxel"], p["nparts"], i, "emit", p), workers=1, timeout=3000,
                             params={"univ": p["univ"]}, tag=("emit", const)))
    t, rs = s2c.run_s2c(MOD, focus, jobs, tlc_parallel=9)
    total.merge(t)
    for job, r in zip(jobs, rs):
        kind, const = job["tag"]
        d = r.as_dict()
        if kind == "mc":
            d.update(spec="QuotientFilter", constants=const, mode="exhaustive")
            total.mc.append(d)
            for inv in r.invariant_violations:
                total.fail("C04", f"C04.model.{inv}", ENGINE, {"tlc": r.error_trace[:60] or r.tail[-30:], "constants": const}, {"model": inv})
        else:
            total.extra.setdefault("emission_runs", []).append({"constants": const, "emitted": r.emitted, "wall_s": round(r.wall, 1)})
    total.rules.append(
        "QuotientFilter: every transition TLC generates from every reachable (set, quotient size, auto_expand) state of the universe "
        "(add/remove of every hash, resize to every size incl. invalid, merges) is executed on the real class; non-trivial = distinct "
        "(source state, operation) whose resulting table contains a shifted slot (shifted run, cluster or wrap-around)"
    )
    total.assumptions.append("hashes are driven through add_alt/remove_alt/check_alt (the 32-bit hash itself is the input); quotient sizes 3..6")
    return total
