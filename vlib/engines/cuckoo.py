"""C03 C15 C08(counting) C14 (+ C05 C19) for CuckooFilter / CountingCuckooFilter.  Spec: spec/Cuckoo.tla.
Every transition TLC generates carries the sequence of random draws that resolves the filter's internal
choices; the harness scripts `random` in the two cuckoo modules so the real code follows exactly that path."""
import copy
import io
import os
import tempfile

from ..core import Tally, vary_buf, fmap  # noqa: F401
from .. import s2c, tlc

ENGINE = "cuckoo"
MOD = "vlib.engines.cuckoo"


class Script:
    """stands in for the `random` module inside probables.cuckoo.*"""

    def __init__(self):
        self.q = []
        self.draws = 0
        self.starved = 0
        self.log = []       # what was handed out, normalised: index chosen by choice(), offset from the lower bound for randint()

    def load(self, ch):
        self.q = list(ch)
        self.draws = 0
        self.starved = 0
        self.log = []

    def _next(self):
        self.draws += 1
        if self.q:
            return self.q.pop(0)
        self.starved += 1
        return 0

    def choice(self, seq):
        i = self._next() % len(seq)
        self.log.append(i)
        return seq[i]

    def randint(self, a, b):
        v = min(b, a + self._next())
        self.log.append(v - a)
        return v

    # the rest of the `random` interface: an implementation is free to draw differently (another number of draws, other functions); the
    # scripted values still steer it deterministically, and the property clauses (stated on histories and observations) do not depend on it
    def randrange(self, start, stop=None, step=1):
        if stop is None:
            start, stop = 0, start
        n = max(1, (stop - start + step - 1) // step)
        i = self._next() % n
        self.log.append(i)
        return start + i * step

    def random(self):
        return (self._next() % 1000) / 1000.0

    def getrandbits(self, k):
        return self._next() % (1 << k)

    def shuffle(self, x):
        r = self._next() % max(1, len(x))
        x[:] = x[r:] + x[:r]

    def sample(self, population, k):
        pop = list(population)
        r = self._next() % max(1, len(pop))
        return (pop[r:] + pop[:r])[:k]

    def choices(self, population, weights=None, k=1):
        pop = list(population)
        return [pop[self._next() % len(pop)] for _ in range(k)]

    def uniform(self, a, b):
        return a + (b - a) * self.random()

    def seed(self, *a, **kw):
        return None

    def __getattr__(self, name):      # anything else: the real module
        import random as _r

        return getattr(_r, name)


def mc_module(p):
    return (
        "MCCuckoo",
        f"""---- MODULE MCCuckoo ----
EXTENDS Cuckoo
cKeys == {tlc.tla_val(set(p['fp']))}
cFpRaw == {tlc.tla_val(dict(p['fp']))}
cAltVals == {tlc.tla_val(set(p['altvals']))}
cCap0s == {tlc.tla_val(set(p['cap0s']))}
cAutos == {tlc.tla_val(set(p['autos']))}
====
""",
    )


def cfg(p, nparts, part, mode):
    inv = """INVARIANT Kept
INVARIANT NoPhantom
INVARIANT CountExact
INVARIANT BucketSize
INVARIANT Placement
INVARIANT NoDup
INVARIANT CountPos
INVARIANT CounterOK
INVARIANT ShapeOK
PROPERTY CapChain
PROPERTY FailedKeeps
"""
    return f"""CONSTANTS
  Keys <- cKeys
  FpRaw <- cFpRaw
  AltVals <- cAltVals
  BS = {p['bs']}
  MS = {p['ms']}
  Rate = {p.get('rate', 2)}
  Counting = {"TRUE" if p['counting'] else "FALSE"}
  Cap0s <- cCap0s
  Autos <- cAutos
  MaxCap = {p['maxcap']}
  MaxDepth = {p['maxdepth']}
  MaxOut = {p.get('maxout', 2)}
  MaxReloads = {p.get('maxreloads', 1)}
  NPARTS = {nparts}
  PART = {part}
  Queries = {"TRUE" if p.get('queries') else "FALSE"}
  Setters = {"TRUE" if p.get('setters') else "FALSE"}
INIT Init
NEXT Next
VIEW {"ViewH" if p.get("histview") else "View"}
CONSTRAINT Bound
{inv if mode in ("mc", "both") else ""}
{"ACTION_CONSTRAINT Emit" if mode in ("emit", "both") else ""}
CHECK_DEADLOCK FALSE
"""


def make_hash(fp, alt):
    table = dict(fp)
    alts = {str(k): v for k, v in alt.items()}

    def hf(key, *a):
        if isinstance(key, bytes):
            key = key.decode()
        if key in table:
            return table[key]
        return alts.get(key, 0)

    return hf


class Ctx:
    def __init__(self, tally, params):
        import probables.cuckoo.cuckoo as m1
        import probables.cuckoo.countingcuckoo as m2
        from probables.exceptions import CuckooFilterFullError

        self.t = tally
        self.p = params
        self.script = Script()
        m1.random = self.script
        m2.random = self.script
        self.cls = m2.CountingCuckooFilter if params["counting"] else m1.CuckooFilter
        self.Full = CuckooFilterFullError
        self.counting = params["counting"]
        self.keys = sorted(params["fp"])
        self.fpof = {k: (v if v else 1) for k, v in params["fp"].items()}
        self.cache = {}
        self.rt_seen = set()
        self.c19_seen = set()
        self.tmp = tempfile.mkdtemp(prefix="cuckoo-", dir=tlc.scratch_root())

    def close(self):
        pass

    def make(self, c):
        hf = make_hash(self.p["fp"], fmap(c["alt"]))
        if self.p.get("er"):  # sized by error rate instead of finger_size
            return self.cls.init_error_rate(self.p["er"], capacity=c["cap"], bucket_size=self.p["bs"], max_swaps=self.p["ms"],
                                            expansion_rate=self.p.get("rate", 2), auto_expand=c["auto"], hash_function=hf)
        return self.cls(capacity=c["cap"], bucket_size=self.p["bs"], max_swaps=self.p["ms"], expansion_rate=self.p.get("rate", 2),
                        auto_expand=c["auto"], finger_size=self.p.get("finger_size", 4), hash_function=hf)

    def apply(self, f, o, ch):
        self.script.load(ch)
        if o[0] == "add":
            return f.add(o[1])
        if o[0] == "rem":
            return f.remove(o[1])
        if o[0] == "exp":
            return f.expand()
        if o[0] == "chk":      # a look-up as an operation of the history
            return f.check(o[1])
        if o[0] == "auto":     # the auto_expand setter
            f.auto_expand = o[1] == "T"
            return None

    def reload(self, f, c, channel):
        """export + load; what the format does not store (hash function, fingerprint width, expansion settings) is re-supplied"""
        hf = make_hash(self.p["fp"], fmap(c["alt"]))
        if channel == "file":
            path = os.path.join(self.tmp, "rl.cko")
            f.export(path)
            g = self.cls.load_error_rate(self.p["er"], path, hash_function=hf) if self.p.get("er") else self.cls(filepath=path, hash_function=hf)
        else:
            data = vary_buf(bytes(f)) if self.counting else bytes(f)      # the plain filter's loader takes bytes only
            g = self.cls.frombytes(data, error_rate=self.p["er"], hash_function=hf) if self.p.get("er") else self.cls.frombytes(data, hash_function=hf)
        if not self.p.get("er"):
            g.fingerprint_size = self.p.get("finger_size", 4)
        g.auto_expand = f.auto_expand
        g.expansion_rate = f.expansion_rate
        return g

    def out_step(self, out, o, failed):
        """the history oracle (outstanding additions per fingerprint), advanced from the operation and from whether the CODE's call returned
        normally - the property speaks about adds that returned normally; an implementation that resolves its random choices differently may
        reject an add the model's resolution accepts, or the reverse"""
        if failed or o[0] not in ("add", "rem"):
            return out
        out = dict(out)
        fp = self.fpof[o[1]]
        if o[0] == "add":
            out[fp] = out.get(fp, 0) + 1 if self.counting else 1
        else:
            out[fp] = max(0, out.get(fp, 0) - 1) if self.counting else 0
        return out

    def source(self, c, hist):
        key = repr((c, hist))
        got = self.cache.get(key)
        if got is not None:
            f, self.cur_out = copy.deepcopy(got)
            return f
        f = self.make(c)
        out = {}
        for o, ch in hist:
            failed = False
            try:
                if o[0] == "rt":
                    f = self.reload(f, c, o[1])
                else:
                    self.apply(f, o, ch)
            except self.Full:
                failed = True
            except Exception:
                return None
            out = self.out_step(out, o, failed)
        if len(self.cache) > 5000:
            self.cache.clear()
        self.cache[key] = copy.deepcopy((f, out))
        self.cur_out = out
        return f

    def table(self, f):
        if self.counting:
            return [[[b.finger, b.count] for b in bk] for bk in f.buckets]
        return [[[x, 1] for x in bk] for bk in f.buckets]

    def observe(self, f):
        chk = {k: f.check(k) for k in self.keys}
        return {
            "check": {k: (int(v) if self.counting else bool(v)) for k, v in chk.items()},
            "in": {k: (k in f) for k in self.keys},
            "tbl": self.table(f),
            "cap": f.capacity,
            "n": f.elements_added,
            "uniq": f.unique_elements if self.counting else None,
            "lf": f.load_factor(),
        }

    def edge(self, e):
        t = self.t
        c, hist, o, ch, exp = e["c"], e["h"], e["a"], e["ch"], e["e"]
        f = self.source(c, hist)
        if f is None:
            t.extra["skipped_history_crashed"] = t.extra.get("skipped_history_crashed", 0) + 1
            return
        t.evaluations += 1
        t.s2c += 1
        before = self.observe(f)
        sig = {"op": o[0], "counting": self.counting, "auto": c["auto"]}

        def rp(**kw):
            d = {"params": self.p, "cfg": c, "history": hist, "op": o, "choices": ch, "expected": exp, "before": before}
            d.update(kw)
            return d

        if t.focus == "C19":
            k19 = hash(repr((c, hist)))
            if k19 not in self.c19_seen:
                self.c19_seen.add(k19)
                self._c19(t, f, before, rp)
        raised = None
        ret = None
        try:
            if o[0] == "rt":
                self.script.load([])
                try:
                    f = self.reload(f, c, o[1])
                except Exception as exc:  # noqa
                    t.fail("C05", "C05.load_raises", ENGINE, rp(raised=repr(exc)), sig)
                    return
            else:
                ret = self.apply(f, o, ch)
        except self.Full as exc:
            raised = exc
        except Exception as exc:  # noqa
            t.fail("C03", "C03.crash", ENGINE, rp(raised=repr(exc)), sig)
            return
        after = self.observe(f)
        rp2 = lambda **kw: rp(observed=after, raised=repr(raised), **kw)  # noqa
        fpof = self.fpof
        if raised is not None:
            if o[0] == "add":
                lost = [k for k in self.keys if before["check"][k] and not after["check"][k]]
                t.check(not lost, "C03", "C03.failed_add_keeps", ENGINE, lambda: rp2(lost=lost), sig)
                if self.counting:
                    chg = [k for k in self.keys if before["check"][k] != after["check"][k]]
                    t.check(not chg, "C08", "C08.cc_failed_add_keeps_counts", ENGINE, lambda: rp2(changed=chg), sig)
            if not exp["err"]:
                t.add_drift(ENGINE, {"cfg": c, "history": hist, "op": o, "choices": ch, "raised": repr(raised), "expected_err": False})
                return
        else:
            if exp["err"]:
                # the model expected the call to fail, the code returned normally: the clause on a normal return still applies,
                # judged from the code's own answers (the added key, and everything reported before, must be reported now)
                if o[0] == "add":
                    gone = [k for k in self.keys if (before["check"][k] or k == o[1]) and not (after["check"][k] and after["in"][k])]
                    t.check(not gone, "C03", "C03.kept", ENGINE, lambda: rp2(missing=gone, note="add returned normally"), sig)
                t.add_drift(ENGINE, {"cfg": c, "history": hist, "op": o, "choices": ch, "raised": None, "expected_err": True})
                return
            out = self.out_step(self.cur_out, o, False)
            out = {fp: out.get(fp, 0) for fp in set(fpof.values())}
            if out != {fp: v for fp, v in fmap(exp["out"]).items() if fp in out}:      # the code accepted / rejected some add of the history differently
                t.add_drift(ENGINE, {"cfg": c, "history": hist, "op": o, "choices": ch, "outstanding_by_code": out, "outstanding_by_model": exp["out"]})
            missing = [k for k in self.keys if out[fpof[k]] > 0 and not after["check"][k]]
            t.check(not missing, "C03", "C03.kept", ENGINE, lambda: rp2(missing=missing), sig)
            missing_in = [k for k in self.keys if out[fpof[k]] > 0 and not after["in"][k]]
            t.check(not missing_in, "C03", "C03.kept_in", ENGINE, lambda: rp2(missing=missing_in), sig)
            if self.counting:
                wrong = {k: (after["check"][k], out[fpof[k]]) for k in self.keys if after["check"][k] != out[fpof[k]]}
                t.check(not wrong, "C08", "C08.cc_exact", ENGINE, lambda: rp2(wrong=wrong), sig)
            if o[0] == "rem" and not before["check"][o[1]]:
                t.check(ret is False and after == before, "C08", "C08.cc_absent_noop" if self.counting else "C08.plain_absent_noop",
                        ENGINE, rp2, sig)
            # C14: documented meaning of the counters, from the history oracle
            stored = sum(1 for v in out.values() if v > 0)
            total = sum(out.values())
            if self.counting:
                t.check(after["n"] == total, "C14", "C14.count.ccuckoo_sum", ENGINE, lambda: rp2(expected_n=total), sig)
                t.check(after["uniq"] == stored, "C14", "C14.count.ccuckoo_unique", ENGINE, lambda: rp2(expected_unique=stored), sig)
                t.check(after["lf"] == after["uniq"] / (after["cap"] * self.p["bs"]), "C14", "C14.load_factor.ccuckoo", ENGINE, rp2, sig)
            else:
                t.check(after["n"] == stored, "C14", "C14.count.cuckoo", ENGINE, lambda: rp2(expected_n=stored), sig)
                t.check(after["lf"] == after["n"] / (after["cap"] * self.p["bs"]), "C14", "C14.load_factor.cuckoo", ENGINE, rp2, sig)
        if o[0] == "rt":
            t.check(after["check"] == before["check"] and after["in"] == before["in"], "C05", "C05.queries.cuckoo", ENGINE, rp2, dict(sig, channel=o[1]))
            t.check((after["cap"], after["n"], after["uniq"]) == (before["cap"], before["n"], before["uniq"]), "C05", "C05.geometry.cuckoo", ENGINE, rp2, dict(sig, channel=o[1]))
        # C14 self-consistency with the public table, also after a failed add
        bins = [b for bk in after["tbl"] for b in bk]
        if self.counting:
            t.check(after["n"] == sum(b[1] for b in bins) and after["uniq"] == len(bins), "C14", "C14.count.ccuckoo_table", ENGINE, rp2, sig)
        else:
            t.check(after["n"] == len(bins), "C14", "C14.count.cuckoo_table", ENGINE, rp2, sig)
        self.c15(t, c, after, before, rp2, sig)
        # drift: full projection
        if after["tbl"] != exp["tbl"] or after["cap"] != exp["cap"] or after["n"] != exp["n"] or (self.counting and after["uniq"] != exp["uniq"]):
            t.add_drift(ENGINE, {"cfg": c, "history": hist, "op": o, "choices": ch, "expected": exp, "observed": after})
        elif self.script.draws != len(ch) or self.script.starved:
            t.add_drift(ENGINE, {"cfg": c, "history": hist, "op": o, "choices": ch, "draws_made": self.script.draws})
        if t.focus in ("C05", "C15", "C06"):
            key = hash(repr((c, after["tbl"])))
            if key not in self.rt_seen:  # once per distinct reached table
                self.rt_seen.add(key)
                self._roundtrip(t, c, f, after, rp2, sig)
        if ch or after["cap"] != before["cap"]:
            t.nontriv(hash(repr((c, hist, o, ch))))
        t.sample({"params": {k: self.p[k] for k in ("bs", "ms", "counting")}, "cfg": c, "history": hist[-4:], "op": o, "choices": ch, "expected": exp})

    def c15(self, t, c, obs, before, rp2, sig, tag=""):
        bs = self.p["bs"]
        hf = make_hash(self.p["fp"], fmap(c["alt"]))
        cap = obs["cap"]
        tbl = obs["tbl"]
        t.check(len(tbl) == cap and all(len(bk) <= bs for bk in tbl), "C15", "C15.size" + tag, ENGINE, rp2, sig)
        ok = True
        for i, bk in enumerate(tbl):
            for fpr, _ in bk:
                if i not in (fpr % cap, hf(str(fpr)) % cap):
                    ok = False
        t.check(ok, "C15", "C15.placement" + tag, ENGINE, rp2, sig)
        fps = [b[0] for bk in tbl for b in bk]
        t.check(len(fps) == len(set(fps)), "C15", "C15.nodup" + tag, ENGINE, rp2, sig)
        t.check(all(b[1] >= 1 for bk in tbl for b in bk), "C15", "C15.count_pos" + tag, ENGINE, rp2, sig)
        if before is not None:
            rate = self.p.get("rate", 2)
            t.check(cap == before["cap"] or cap == before["cap"] * rate, "C15", "C15.capacity_chain", ENGINE, rp2, sig)

    def _roundtrip(self, t, c, f, obs, rp2, sig):
        hf = make_hash(self.p["fp"], fmap(c["alt"]))
        data = bytes(f)
        path = os.path.join(self.tmp, "x.cko")
        f.export(path)
        with open(path, "rb") as fh:
            data2 = fh.read()
        bio = io.BytesIO()
        f.export(bio)
        t.check(data == data2 == bio.getvalue(), "C05", "C05.channels_agree.cuckoo", ENGINE, rp2, sig)
        if self.p.get("er"):
            loaded = [("frombytes_error_rate", self.cls.frombytes(data, error_rate=self.p["er"], hash_function=hf)),
                      ("load_error_rate", self.cls.load_error_rate(self.p["er"], path, hash_function=hf))]
        else:
            loaded = [("frombytes", self.cls.frombytes(data, hash_function=hf)), ("filepath", self.cls(filepath=path, hash_function=hf))]
        for name, g in loaded:
            if not self.p.get("er"):
                g.fingerprint_size = self.p.get("finger_size", 4)
            t.check(g.fingerprint_size_bits == f.fingerprint_size_bits and g.error_rate == f.error_rate, "C05", "C05.fingerprint_width.cuckoo", ENGINE,
                    lambda: rp2(channel=name, loaded_bits=g.fingerprint_size_bits, original_bits=f.fingerprint_size_bits), dict(sig, channel=name))
            o2 = self.observe(g)
            s2 = dict(sig, channel=name)
            t.check(o2["check"] == obs["check"] and o2["in"] == obs["in"], "C05", "C05.queries.cuckoo", ENGINE, lambda: rp2(loaded=o2, channel=name), s2)
            t.check(o2["cap"] == obs["cap"] and g.bucket_size == f.bucket_size and g.max_swaps == f.max_swaps and o2["n"] == obs["n"]
                    and o2["uniq"] == obs["uniq"], "C05", "C05.geometry.cuckoo", ENGINE, lambda: rp2(loaded=o2, channel=name), s2)
            t.check(bytes(g) == data, "C05", "C05.reexport.cuckoo", ENGINE, lambda: rp2(loaded=o2, channel=name), s2)
            self.c15(t, c, o2, None, lambda **kw: rp2(loaded=o2, channel=name), s2, tag="_loaded")
            if t.focus == "C05":
                if any(len(bk) not in (0, self.p["bs"]) for bk in obs["tbl"]):
                    t.nontriv(hash(repr(obs["tbl"])))

    def _c19(self, t, f, before, rp):
        data = bytes(f)
        for k in self.keys:
            f.check(k)
            k in f  # noqa
        f.check("zz-not-a-key") if False else None
        str(f)
        f.load_factor()
        bytes(f)
        bio = io.BytesIO()
        f.export(bio)
        f.export(os.path.join(self.tmp, "q.cko"))
        after = self.observe(f)
        t.check(after == before and bytes(f) == data, "C19", "C19.cuckoo_queries_unchanged", ENGINE, lambda: rp(after=after), {"structure": "ccuckoo" if self.counting else "cuckoo"})
        if before["n"] > 0:
            t.nontriv(hash(repr(before["tbl"])))


def profiles(tier, light=False, focus=None):
    P = []
    if tier == "quick":
        for counting in (False, True):
            P.append(dict(fp={"a": 2, "b": 3, "e": 2, "z": 0}, altvals=[0, 1, 2, 3], bs=1, ms=2, counting=counting, cap0s=[1, 2], autos=[False, True],
                          maxcap=4, maxdepth=4, maxout=2, nparts=2))
            P.append(dict(fp={"a": 1, "b": 2, "c": 3, "d": 5}, altvals=[0, 1], bs=2, ms=2, counting=counting, cap0s=[1], autos=[False, True],
                          maxcap=2, maxdepth=5, maxout=2, nparts=2, er=0.001 if counting else 0.02))
    else:
        for counting in (False, True):
            P.append(dict(fp={"a": 2, "b": 3, "c": 4, "e": 2, "z": 0}, altvals=[0, 1, 3], bs=1, ms=3, counting=counting, cap0s=[1, 2], autos=[False, True],
                          maxcap=8, maxdepth=5 if counting else 6, maxout=2, nparts=8))
            P.append(dict(fp={"a": 1, "b": 2, "c": 3, "d": 5, "e": 5}, altvals=[0, 1, 3], bs=2, ms=2, counting=counting, cap0s=[1, 2], autos=[False, True],
                          maxcap=4, maxdepth=5, maxout=1 if counting else 2, nparts=16))
            P.append(dict(fp={"a": 1, "b": 2, "c": 3, "d": 4, "e": 5, "f": 7}, altvals=[0, 1], bs=3, ms=2, counting=counting, cap0s=[1], autos=[False, True],
                          maxcap=2, maxdepth=5, maxout=1, nparts=8, er=0.003))
            P.append(dict(fp={"a": 1, "b": 2, "c": 3}, altvals=[0, 1], bs=8, ms=2, counting=counting, cap0s=[1], autos=[True],
                          maxcap=2, maxdepth=4, maxout=2, nparts=1, er=0.001))
    # other expansion rates, incl. the degenerate rate 1 (the table is rebuilt at the same capacity: the expansion fails or reshuffles)
    for counting in (False, True):
        P.append(dict(fp={"a": 1, "b": 2, "c": 3}, altvals=[0, 1, 2], bs=1, ms=1, counting=counting, cap0s=[1], autos=[True, False], rate=3,
                      maxcap=3, maxdepth=4, maxout=2, nparts=1))
        P.append(dict(fp={"a": 1, "b": 2, "c": 3}, altvals=[0, 1], bs=1, ms=1, counting=counting, cap0s=[1, 2], autos=[True], rate=1,
                      maxcap=2, maxdepth=4, maxout=2, nparts=1))
        # the auto_expand setter as an operation: fill with growth allowed, freeze, overfill (must fail cleanly), thaw, grow
        P.append(dict(fp={"a": 1, "b": 2, "c": 3}, altvals=[0, 1], bs=1, ms=1, counting=counting, cap0s=[1], autos=[False, True], setters=True,
                      maxcap=4, maxdepth=5 if tier != "quick" else 4, maxout=1, nparts=2))
    if light and tier == "quick":
        P = [dict(p, altvals=p["altvals"][:2] if len(p["fp"]) > 3 and p["bs"] == 1 else p["altvals"]) for p in P]
    if light and tier == "thorough":     # cross-cutting properties: the two smallest bucket sizes, one depth less
        P = [dict(p, maxdepth=p["maxdepth"] - 1) for p in P if p["bs"] <= 2]
    # every HISTORY (no state merging, look-ups are operations) of the smallest tables: two keys share a fingerprint, a third maps to the
    # same first bucket with both candidates equal (its insertion must evict), buckets of one slot
    for counting in (False, True):
        P.append(dict(fp={"a": 1, "b": 3, "e": 1}, altvals=[0, 1], bs=1, ms=2, counting=counting, cap0s=[2], autos=[False], maxcap=2,
                      maxdepth=5 if tier != "quick" or (counting and focus in ("C03", "C08")) else 4, maxout=3, nparts=4, histview=True, queries=True, maxreloads=0))
    return P


def run(focus, tier, seed):
    total = Tally(focus)
    jobs = []
    for p in profiles(tier, focus in ("C05", "C14", "C19"), focus):
        if p.get("histview") and focus == "C05":
            continue
        mod = mc_module(p)
        const = {k: p[k] for k in p if k != "nparts"}
        for i in range(p["nparts"]):
            jobs.append(dict(module=mod, cfg=cfg(p, p["nparts"], i, "both"), workers=1, timeout=3000, params=p, tag=("mc", const)))
    t, rs = s2c.run_s2c(MOD, focus, jobs, tlc_parallel=10)
    total.merge(t)
    agg = {}
    for job, r in zip(jobs, rs):
        kind, const = job["tag"]
        key = repr(const)
        total.extra["emitted"] = total.extra.get("emitted", 0) + r.emitted
        if kind == "mc":
            a = agg.setdefault(key, {"spec": "Cuckoo", "constants": const, "mode": "exhaustive", "generated": 0, "distinct": 0, "depth": 0, "wall_s": 0, "ok": True})
            a["generated"] += r.generated
            a["distinct"] += r.distinct
            a["depth"] = max(a["depth"], r.depth)
            a["wall_s"] = round(max(a["wall_s"], r.wall), 1)
            for inv in r.invariant_violations:
                a["ok"] = False
                prop = {"Kept": "C03", "NoPhantom": "C03", "FailedKeeps": "C03", "CountExact": "C08", "CounterOK": "C14"}.get(inv, "C15")
                total.fail(prop, f"{prop}.model.{inv}", ENGINE, {"tlc": r.error_trace[:80] or r.tail[-30:], "constants": const}, {"model": inv})
    total.mc += list(agg.values())
    total.rules.append(
        "Cuckoo: every transition TLC generates (every key add/remove/expand from every reachable table, for every alternate-bucket table and "
        "every resolution of the random bucket/slot choices) is forced through the real filter with a scripted `random`; non-trivial = distinct "
        "(state, op, choice sequence) that needed at least one eviction draw or changed the capacity"
    )
    total.assumptions.append("the hash function is table-driven through the public hash_function= parameter; capacities <= 8, bucket sizes <= 3, max_swaps <= 3")
    return total
