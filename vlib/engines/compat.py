"""C13 operand compatibility rules.  Spec: spec/Compat.tla; TLC enumerates every (family, config, config-or-foreign)
triple and emits the expected outcome; the harness builds the real operands (populated) and compares."""
import os
import shutil
import tempfile

from ..core import Tally  # noqa: F401
from .. import s2c, tlc
from .bloomfam import GEOM, make_hash

ENGINE = "compat"
MOD = "vlib.engines.compat"

# Bloom-family configurations: (M, K, probe);  count-min: (W, D, probe)
BLOOM_CFGS = [(3, 1, 7), (3, 2, 7), (5, 2, 7), (3, 2, 8), (8, 2, 7), (8, 3, 7), (8, 2, 9)]
# at scale: (est_elements, rate) pairs; some differ in bits but not in bytes or hashes, some only in hashes
BIG_BLOOM = [(10, 0.05), (10, 0.055), (1000, 0.05), (1001, 0.05), (1000, 0.049), (20000, 0.01), (20001, 0.01), (20000, 0.0101)]
# incl. one-row sketches whose widths send the probe key to the same column (7 % 8 = 7 % 9) and one-column sketches with different hash functions
CMS_CFGS = [(2, 2, 7), (2, 3, 7), (3, 2, 7), (2, 2, 8), (1, 1, 7), (8, 1, 7), (9, 1, 7), (1, 2, 7), (1, 2, 8), (16, 1, 7)]
FOREIGN = ["int", "none", "str", "dict", "qf", "cuckoo"]


def module(fam):
    cfgs = BLOOM_CFGS if fam != "cms" else CMS_CFGS
    recs = ", ".join(f'[g1 |-> {a}, g2 |-> {b}, probe |-> {c}, foreign |-> ""]' for a, b, c in cfgs)
    frecs = ", ".join(f'[g1 |-> 0, g2 |-> 0, probe |-> 0, foreign |-> "{x}"]' for x in FOREIGN)
    return ("MCCompat", f"""---- MODULE MCCompat ----
EXTENDS Compat
cConfigs == {{{recs}}}
cForeign == {{{frecs}}}
cFamilies == {{"{fam}"}}
====
""")


CFG = """CONSTANTS
  Configs <- cConfigs
  Foreign <- cForeign
  Families <- cFamilies
INIT Init
NEXT Next
INVARIANT Symmetric
INVARIANT Reflexive
ACTION_CONSTRAINT Emit
CHECK_DEADLOCK FALSE
"""


class Ctx:
    def __init__(self, tally, params):
        import probables as P
        from probables.exceptions import CountMinSketchError

        self.t = tally
        self.P = P
        self.CMSErr = CountMinSketchError
        self.tmp = tempfile.mkdtemp(prefix="compat-", dir=tlc.scratch_root())
        self.n = 0

    def close(self):
        shutil.rmtree(self.tmp, ignore_errors=True)

    def make(self, fam, c, fill):
        if c["foreign"]:
            c = c["foreign"]
            return {"int": 5, "none": None, "str": "a bloom", "dict": {}, "qf": self.P.QuotientFilter(quotient=3), "cuckoo": self.P.CuckooFilter(capacity=4)}[c]
        table = {"a": (0, 1, 2), "b": (1, 5, 3), "c": (2, 2, 2)}
        hf = make_hash(table, probe=c["probe"])
        if fam == "cms":
            s = self.P.CountMinSketch(width=c["g1"], depth=c["g2"], hash_function=hf)
        else:
            est, fpr = GEOM[(c["g1"], c["g2"])]
            if fam == "disk":
                self.n += 1
                s = self.P.BloomFilterOnDisk(os.path.join(self.tmp, f"c{self.n}.blm"), est_elements=est, false_positive_rate=fpr, hash_function=hf)
            elif fam == "counting":
                s = self.P.CountingBloomFilter(est_elements=est, false_positive_rate=fpr, hash_function=hf)
            else:
                s = self.P.BloomFilter(est_elements=est, false_positive_rate=fpr, hash_function=hf)
        for k in fill:
            s.add(k)
        return s

    def edge(self, e):
        t = self.t
        fam, c1, c2, out = e["fam"], e["c1"], e["c2"], e["out"]
        for fill1, fill2 in (((), ()), (("a",), ("b", "c")), (("a", "b"), ("a",))):
            for fam2 in ([fam] if fam in ("cms", "counting") else ["mem", "disk"]):
                if fam == "disk" and fam2 == "disk" and False:
                    continue
                A = self.make(fam, c1, fill1)
                B = self.make(fam2, c2, fill2)
                self.pair(t, fam, fam2, c1, c2, out, A, B, fill1, fill2)
                for x in (A, B):
                    if getattr(x, "is_on_disk", False):
                        x.close()

    def pair(self, t, fam, fam2, c1, c2, out, A, B, fill1, fill2):
        t.evaluations += 1
        t.s2c += 1
        sig = {"family": fam, "second": fam2 if not c2["foreign"] else c2["foreign"], "expected": out}
        bA = bytes(A)
        bB = bytes(B) if not c2["foreign"] else None
        ops = ["join"] if fam == "cms" else ["union", "intersection", "jaccard_index"]

        def rp(**kw):
            d = {"family": fam, "c1": c1, "c2": c2, "fill": [fill1, fill2], "expected": out}
            d.update(kw)
            return d

        for op in ops:
            res, exc = None, None
            try:
                res = getattr(A, op)(B)
            except Exception as ex:  # noqa
                exc = ex
            got = ("type" if isinstance(exc, TypeError) else "error" if isinstance(exc, self.CMSErr) else f"raised {exc!r}") if exc is not None else \
                ("none" if (res is None and fam != "cms") else "result")
            clause = {"type": "C13.foreign_typeerror", "none": "C13.incompatible_none", "error": "C13.join_raises", "result": "C13.compatible_result"}[out]
            t.check(got == out, "C13", clause, ENGINE, lambda: rp(op=op, got=got), dict(sig, op=op))
            if not (fam == "cms" and out == "result"):
                t.check(bytes(A) == bA, "C13", "C13.operands_unchanged", ENGINE, lambda: rp(op=op, which="receiver"), dict(sig, op=op))
            if bB is not None:
                t.check(bytes(B) == bB, "C13", "C13.operands_unchanged", ENGINE, lambda: rp(op=op, which="second"), dict(sig, op=op))
        if out != "result":
            t.nontriv(hash(repr((fam, fam2, c1, c2, fill1))))
        t.sample({"family": fam, "second": fam2, "c1": c1, "c2": c2, "expected": out})


def big_pairs(total):
    """the Compat rule on realistically sized filters: geometry is what the constructor reports, the rule is Compat.tla's"""
    import itertools

    import probables as P

    for cls_name in ("BloomFilter", "CountingBloomFilter"):
        cls = getattr(P, cls_name)
        objs = []
        for est, fpr in BIG_BLOOM:
            if cls_name == "CountingBloomFilter" and est > 2000:
                continue
            f = cls(est_elements=est, false_positive_rate=fpr)
            for i in range(0, 40):
                f.add(f"key-{est}-{i}")
            objs.append(((est, fpr), f))
        for (c1, A), (c2, B) in itertools.product(objs, repeat=2):
            compatible = (A.number_bits, A.number_hashes) == (B.number_bits, B.number_hashes)   # same default hash: Compatible(a,b) of Compat.tla
            bA, bB = bytes(A), bytes(B)
            for op in ("union", "intersection", "jaccard_index"):
                try:
                    res = getattr(A, op)(B)
                    got = "result" if res is not None else "none"
                except Exception as exc:  # noqa
                    got = f"raised {exc!r}"
                want = "result" if compatible else "none"
                total.evaluations += 1
                total.check(got == want, "C13", "C13.compatible_result.scale" if compatible else "C13.incompatible_none.scale", ENGINE,
                            {"class": cls_name, "c1": c1, "c2": c2, "geometry": [[A.number_bits, A.number_hashes], [B.number_bits, B.number_hashes]], "op": op, "got": got}, {"op": op, "class": cls_name})
            total.check(bytes(A) == bA and bytes(B) == bB, "C13", "C13.operands_unchanged.scale", ENGINE, {"class": cls_name, "c1": c1, "c2": c2}, {"class": cls_name})
            if not compatible:
                total.nontriv(hash((cls_name, c1, c2)))
    for (w1, d1), (w2, d2) in itertools.product([(1000, 5), (1001, 5), (1000, 4), (2000, 5)], repeat=2):
        A, B = P.CountMinSketch(width=w1, depth=d1), P.CountMinSketch(width=w2, depth=d2)
        for i in range(30):
            A.add(f"a{i}", i + 1)
            B.add(f"b{i}", 2)
        bB = bytes(B)
        try:
            A.join(B)
            got = "result"
        except P.exceptions.CountMinSketchError:
            got = "error"
        except Exception as exc:  # noqa
            got = f"raised {exc!r}"
        total.evaluations += 1
        total.check(got == ("result" if (w1, d1) == (w2, d2) else "error"), "C13", "C13.join_rule.scale", ENGINE, {"a": [w1, d1], "b": [w2, d2], "got": got}, {"family": "cms"})
        total.check(bytes(B) == bB, "C13", "C13.operands_unchanged.scale", ENGINE, {"a": [w1, d1], "b": [w2, d2]}, {"family": "cms"})


def run(focus, tier, seed):
    total = Tally(focus)
    big_pairs(total)
    jobs = [dict(module=module(f), cfg=CFG, workers=1, timeout=600, tag=f) for f in ("mem", "disk", "counting", "cms")]
    t, rs = s2c.run_s2c(MOD, focus, jobs, tlc_parallel=4, batch=40)
    total.merge(t)
    for job, r in zip(jobs, rs):
        d = r.as_dict()
        d.update(spec="Compat", constants={"family": job["tag"]}, mode="exhaustive+emit")
        total.mc.append(d)
        for inv in r.invariant_violations:
            total.fail("C13", f"C13.model.{inv}", ENGINE, {"tlc": r.tail[-30:]}, {"model": inv})
    total.rules.append("Compat: every (family, configuration, configuration or foreign object) triple is built for real, empty and populated; non-trivial = an incompatible or foreign pair")
    return total
