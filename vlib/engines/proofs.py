"""Additional design-level evidence: TLAPS proofs about the abstract models (unbounded in keys, sizes and hash functions) and
inductive invariants discharged by Apalache (unbounded in history length and amounts, every hash table of a small geometry).
They say nothing about the code (the conformance engines bind the code); they are run in the thorough tier only and never
produce a property verdict: a proof that does not go through is reported as a note."""
import re
import shutil
import subprocess
import time
from pathlib import Path

from ..core import Tally
from .. import tlc

ENGINE = "proofs"
PROOFS = {"C01": ["BloomProof"], "C09": ["ExpandingProof"], "C10": ["ExpandingProof"]}
THEOREMS = {"BloomProof": "Spec => []NoFalseNegative", "ExpandingProof": "Spec => []Cap  and  Spec => NoEarlyGrowth (arbitrary est_elements, unbounded histories)"}
# module, inductive invariant, the property it implies; the steps: Init => IndInv, IndInv /\ Next => IndInv', IndInv => property,
# and a probe that must FAIL from IndInv (the invariant is not vacuous)
INDUCTIVE = {"C02": [("CountMinInd", "IndInv", "Bounds")], "C08": [("CountingBloomInd", "IndInv", "Exact")]}


def apalache(total, mod, ind, prop):
    d = Path(tlc.new_scratch("apalache"))
    shutil.copy(tlc.SPEC_DIR / f"{mod}.tla", d / f"{mod}.tla")
    steps = [("init_implies_inv", ["--init=Init", f"--inv={ind}", "--length=0"], "NoError"), ("inv_is_inductive", [f"--init={ind}", f"--inv={ind}", "--length=1"], "NoError"),
             ("inv_implies_property", [f"--init={ind}", f"--inv={prop}", "--length=0"], "NoError"), ("probe_fails_so_inv_not_vacuous", [f"--init={ind}", "--inv=Probe", "--length=1"], "Error")]
    rec = {"module": mod, "inductive_invariant": ind, "implies": prop, "tool": "apalache-mc 0.58 (symbolic, SMT)", "steps": {}}
    t0 = time.time()
    try:
        for name, args, want in steps:
            out = subprocess.run(["apalache-mc", "check", *args, f"--out-dir={d}/out", f"{mod}.tla"], cwd=d, capture_output=True, text=True, timeout=900)
            m = re.search(r"The outcome is: (\w+)", out.stdout + out.stderr)
            got = m.group(1) if m else "unknown"
            rec["steps"][name] = {"outcome": got, "as_expected": got == want}
        rec["all_as_expected"] = all(v["as_expected"] for v in rec["steps"].values())
        if not rec["all_as_expected"]:
            total.notes.append(f"Apalache did not discharge every step of {mod} (extra evidence only): {rec['steps']}")
    except Exception as exc:  # noqa
        total.notes.append(f"Apalache run of {mod} failed: {exc!r} (extra evidence only)")
    finally:
        rec["wall_s"] = round(time.time() - t0, 1)
        total.extra.setdefault("apalache", []).append(rec)
        shutil.rmtree(d, ignore_errors=True)


def run(focus, tier, seed):
    total = Tally(focus)
    if tier != "thorough":
        return total
    if shutil.which("apalache-mc") is not None:
        for mod, ind, prop in INDUCTIVE.get(focus, []):
            apalache(total, mod, ind, prop)
    if shutil.which("tlapm") is None:
        return total
    for mod in PROOFS.get(focus, []):
        d = Path(tlc.new_scratch("tlaps"))
        shutil.copy(tlc.SPEC_DIR / f"{mod}.tla", d / f"{mod}.tla")
        t0 = time.time()
        try:
            out = subprocess.run(["tlapm", "--toolbox", "0", "0", f"{mod}.tla"], cwd=d, capture_output=True, text=True, timeout=600)
            txt = out.stdout + out.stderr
            m = re.search(r"All (\d+) obligations? proved", txt)
            proved = len(re.findall(r"@!!status:proved", txt))
            total.extra.setdefault("tlaps", []).append({"module": mod, "theorem": THEOREMS.get(mod, ""), "all_proved": bool(m), "obligations": int(m.group(1)) if m else None,
                                                        "proved_statuses": proved, "wall_s": round(time.time() - t0, 1)})
            if not m:
                total.notes.append(f"TLAPS did not discharge every obligation of {mod} (extra evidence only)")
        except Exception as exc:  # noqa
            total.notes.append(f"TLAPS run of {mod} failed: {exc!r} (extra evidence only)")
        finally:
            shutil.rmtree(d, ignore_errors=True)
    return total
