"""Additional design-level evidence: TLAPS proofs about the abstract models (unbounded in keys, sizes and hash functions).
They say nothing about the code (the conformance engines bind the code); they are run in the thorough tier only and never
produce a property verdict: a proof that does not go through is reported as a note."""
import re
import shutil
import subprocess
import time
from pathlib import Path

from ..core import Tally
from .. import tlc

ENGINE = "proofs"
PROOFS = {"C01": ["BloomProof"]}


def run(focus, tier, seed):
    total = Tally(focus)
    if tier != "thorough" or focus not in PROOFS or shutil.which("tlapm") is None:
        return total
    for mod in PROOFS[focus]:
        d = Path(tlc.new_scratch("tlaps"))
        shutil.copy(tlc.SPEC_DIR / f"{mod}.tla", d / f"{mod}.tla")
        t0 = time.time()
        try:
            out = subprocess.run(["tlapm", "--toolbox", "0", "0", f"{mod}.tla"], cwd=d, capture_output=True, text=True, timeout=600)
            txt = out.stdout + out.stderr
            m = re.search(r"All (\d+) obligations? proved", txt)
            proved = len(re.findall(r"@!!status:proved", txt))
            total.extra.setdefault("tlaps", []).append({"module": mod, "theorem": "Spec => []NoFalseNegative", "all_proved": bool(m), "obligations": int(m.group(1)) if m else None,
                                                        "proved_statuses": proved, "wall_s": round(time.time() - t0, 1)})
            if not m:
                total.notes.append(f"TLAPS did not discharge every obligation of {mod} (extra evidence only)")
        except Exception as exc:  # noqa
            total.notes.append(f"TLAPS run of {mod} failed: {exc!r} (extra evidence only)")
        finally:
            shutil.rmtree(d, ignore_errors=True)
    return total
