"""C18: hashing strategies.  (a) spec/HashRef.tla: TLC computes reference FNV-1a values (byte-limb arithmetic) for every
key up to a length and a set of seeds; the real fnv_1a / fnv_1a_32 / default_fnv_1a are compared with them.
(b) spec/HashMemo.tla: recorded calls of every shipped and decorator-built strategy are validated by TLC
(length, range, purity + prefix stability through a memo, text = UTF-8 bytes, reference values)."""
import json
import random as _random

from ..core import Tally  # noqa: F401
from .. import s2c, tlc

ENGINE = "hashes"
MOD = "vlib.engines.hashes"


def limbs(n, w=8):
    n %= 1 << (8 * w)
    return [(n >> (8 * i)) & 255 for i in range(w)]


def unlimbs(v):
    return sum(b << (8 * i) for i, b in enumerate(v))


SEEDS_Q = [0, 1, 2, 3, 7, 15, 16, 17, 31, 2**32 - 1, 2**32, 2**64 // 31, 2**64 // 31 + 1, 2**64 - 1]
SEEDS_T = SEEDS_Q + [4, 5, 6, 31, 255, 256, 2**31, 2**32 + 1, 2**63, 2**64 // 31 - 1, 2**64 + 5, 12345678901234567]
MODS = [3, 7, 8, 63, 64, 1000, 65536, 4194301]


def ref_module(maxlen, extra, seeds, nparts, part):
    ek = ", ".join(tlc.tla_val(list(k)) for k in extra) if extra else ""
    sd = ", ".join(tlc.tla_val(limbs(s)) for s in seeds)
    return ("MCHashRef", f"""---- MODULE MCHashRef ----
EXTENDS HashRef
cExtra == {{{ek}}}
cSeeds == {{{sd}}}
cMods == {tlc.tla_val(MODS)}
====
""")


def ref_cfg(maxlen, nparts, part):
    return f"""CONSTANTS
  MaxLen = {maxlen}
  ExtraKeys <- cExtra
  Seeds <- cSeeds
  NPARTS = {nparts}
  PART = {part}
  Mods <- cMods
INIT Init
NEXT Next
INVARIANT Vectors
ACTION_CONSTRAINT Emit
CHECK_DEADLOCK FALSE
"""


class Ctx:
    def __init__(self, tally, params):
        from probables import hashes

        self.t = tally
        self.h = hashes
        self.seedmap = {tuple(limbs(s)): s for s in params["seeds"]}

    def close(self):
        pass

    def edge(self, e):
        t = self.t
        units, seedl = e["key"], e["seed"]
        seed = self.seedmap[tuple(seedl)]
        want64, want32 = unlimbs(e["h64"]), unlimbs(e["h32"])
        kb = bytes(units)
        t.evaluations += 1
        t.s2c += 1
        sig = {"len": len(units)}

        def rp(**kw):
            d = {"key_units": units, "seed": seed, "expected_fnv64": want64, "expected_fnv32": want32}
            d.update(kw)
            return d

        got = self.h.fnv_1a(kb, seed)
        t.check(got == want64, "C18", "C18.fnv_ref_64", ENGINE, lambda: rp(got=got), sig)
        got32 = self.h.fnv_1a_32(kb, seed)
        t.check(got32 == want32, "C18", "C18.fnv_ref_32", ENGINE, lambda: rp(got=got32), sig)
        txt = "".join(map(chr, units))  # text key whose code points are the units
        gt = self.h.fnv_1a(txt, seed)
        t.check(gt == want64, "C18", "C18.fnv_text_units", ENGINE, lambda: rp(got=gt, text=txt), sig)
        if all(u < 128 for u in units):
            t.check(self.h.fnv_1a(txt, seed) == self.h.fnv_1a(txt.encode("utf-8"), seed) and self.h.fnv_1a_32(txt, seed) == self.h.fnv_1a_32(txt.encode(), seed),
                    "C18", "C18.text_eq_utf8_fnv", ENGINE, rp, sig)
        if seed < 40:
            d = self.h.default_fnv_1a(kb, seed + 1)
            t.check(len(d) == seed + 1 and d[-1] == want64, "C18", "C18.default_is_seeded_fnv", ENGINE, lambda: rp(got=d), sig)
        for m, r in zip(MODS, e["mods"]):
            t.check(got % m == r, "C18", "C18.position_mod", ENGINE, lambda: rp(mod=m, expected_residue=r), sig)
        if seed != 0 or len(units) >= 2:
            t.nontriv(hash((tuple(units), seed)))
        t.sample({"key_units": units, "seed": seed, "fnv64": want64, "fnv32": want32})


# ------------------------------------------------------------------------------------------------ memo traces
def strategies():
    from probables import hashes as H

    @H.hash_with_depth_int
    def int_based(key, depth=1):
        if isinstance(key, str):
            key = key.encode("utf-8")
        v = 1469598103934665603
        for b in key:
            v = ((v ^ b) * 1099511628211 + depth * 31) % (1 << 64)
        return v

    @H.hash_with_depth_bytes
    def bytes_based(key, depth=1):
        import hashlib

        return hashlib.blake2b(key, digest_size=16).digest()

    def handwritten(key, depth=1):
        if isinstance(key, str):
            key = key.encode("utf-8")
        out, v = [], 7
        for i in range(depth):
            for b in key:
                v = (v * 131 + b + i) % (1 << 64)
            out.append(v)
        return out

    # name -> (callable, reference?, text must equal utf8 bytes always?)
    return {
        "fnv": (H.default_fnv_1a, True, False),
        "md5": (H.default_md5, False, True),
        "sha256": (H.default_sha256, False, True),
        "deco_int": (int_based, False, True),
        "deco_bytes": (bytes_based, False, True),
        "handwritten": (handwritten, False, True),
    }


def record_traces(seed, ntraces, nev):
    rnd = _random.Random(seed)
    S = strategies()
    pool_txt = ["", "a", "test", "this is a test", "key-17", "z179", "été", "naïve", "中文", "ab€", "~", "\x7f", "AAAA", "hello world",
                "x" * 64, "y" * 65, "\u00fcber-" * 13, "long-key-" * 120, "\u00e9" * 300]
    traces = []
    for ti in range(ntraces):
        ev = []
        keys = [rnd.choice(pool_txt) for _ in range(3)] + ["".join(chr(rnd.randint(32, 126)) for _ in range(rnd.randint(1, 10)))]
        for _ in range(nev):
            s = rnd.choice(list(S))
            fn, ref, always = S[s]
            txt = rnd.choice(keys)
            as_text = rnd.random() < 0.5
            ub = txt.encode("utf-8")
            key = txt if as_text else ub
            d = rnd.choice([1, 1, 2, 3, 4, 6, 6, 17, 20, 33])   # deep requests too (Bloom filters with tiny rates use 17+ hashes)
            try:
                r = fn(key, d)
            except Exception as exc:  # noqa
                ev.append({"s": s, "mk": [0], "units": [], "d": d, "r": [], "oor": True, "ref": False, "raised": repr(exc)})
                continue
            oor = any((not isinstance(v, int)) or v < 0 or v >= 1 << 64 for v in r)
            ascii_ = all(c < 128 for c in ub)
            if as_text and not always and not ascii_:
                mk = [-1] + [ord(c) for c in txt]  # FNV on non-ASCII text is only required to be a pure function of the text
                units = [ord(c) for c in txt]
            else:
                mk = list(ub)
                units = list(ub)
            ev.append({"s": s, "mk": mk, "units": units, "d": d, "r": [limbs(v if isinstance(v, int) else 0) for v in r], "oor": bool(oor),
                       "ref": bool(ref), "key": txt, "as_text": as_text})
        traces.append({"id": ti, "ev": ev})
    return traces


MEMO_CFG = """INIT Init
NEXT Next
CHECK_DEADLOCK FALSE
"""


def validate_traces(traces, timeout=900):
    """one TLC run validates a batch; returns {trace id: [[clause, event index], ...]}"""
    slim = [{"id": tr["id"], "ev": [{k: e[k] for k in ("s", "mk", "units", "d", "r", "oor", "ref")} for e in tr["ev"]]} for tr in traces]
    verdicts = {}

    def on_json(j):
        if isinstance(j, dict) and "verdict" in j:
            verdicts[j["verdict"]] = j["fails"]

    r = tlc.run_tlc("HashMemo", MEMO_CFG, workers=1, timeout=timeout, on_json=on_json, files={"traces.json": json.dumps(slim)}, stack="1g")
    if len(verdicts) != len(traces):
        raise tlc.MachineryError(f"HashMemo: {len(verdicts)} verdicts for {len(traces)} traces\n" + "\n".join(r.tail[-20:]))
    return verdicts, r


def run(focus, tier, seed):
    total = Tally(focus)
    if tier == "quick":
        maxlen, seeds, nparts, extra_n = 1, SEEDS_Q, 4, 40
        ntr, nev, nb = 48, 24, 8
    else:
        maxlen, seeds, nparts, extra_n = 2, SEEDS_T[:8], 14, 400
        ntr, nev, nb = 480, 30, 14
    rnd = _random.Random(seed + 77)
    extra = [[rnd.randint(0, 255) for _ in range(rnd.randint(3, 24))] for _ in range(extra_n)]
    extra += [list(b"test"), list(b"this is a test"), list(b"foobar")]
    # long keys (block-wise or chunked implementations): just below / at / above 64, 256, 1024, 4096 bytes
    for n in ([63, 64, 65, 128, 255, 256, 257, 1023, 1024, 1025, 4096] if tier == "quick" else [63, 64, 65, 127, 128, 129, 255, 256, 257, 1023, 1024, 1025, 4095, 4096, 4097, 9000]):
        extra.append([rnd.randint(0, 255) for _ in range(n)])
    jobs = []
    for i in range(nparts):
        jobs.append(dict(module=ref_module(maxlen, extra if i == 0 else [], seeds, nparts, i), cfg=ref_cfg(maxlen, nparts, i), workers=1, timeout=3000,
                         params={"seeds": seeds}, tag=i, stack="1g"))
    if tier == "thorough":  # the remaining seeds on short keys only
        jobs.append(dict(module=ref_module(1, extra, SEEDS_T, 1, 0), cfg=ref_cfg(1, 1, 0), workers=1, timeout=3000, params={"seeds": SEEDS_T}, tag="seeds", stack="1g"))
    t, rs = s2c.run_s2c(MOD, focus, jobs, tlc_parallel=14)
    total.merge(t)
    agg = {"spec": "HashRef", "constants": {"MaxLen": maxlen, "seeds": len(seeds), "extra_keys": len(extra)}, "mode": "exhaustive+emit", "generated": 0, "distinct": 0, "wall_s": 0, "ok": True}
    for r in rs:
        agg["generated"] += r.generated
        agg["distinct"] += r.distinct
        agg["wall_s"] = round(max(agg["wall_s"], r.wall), 1)
        for inv in r.invariant_violations:
            total.fail("C18", f"C18.model.{inv}", ENGINE, {"tlc": r.tail[-30:]}, {"model": inv})
    total.mc.append(agg)
    # code -> spec: recorded call traces validated by TLC (HashMemo)
    traces = record_traces(seed, ntr, nev)
    import concurrent.futures as cf

    chunks = [traces[i::nb] for i in range(nb)]
    with cf.ThreadPoolExecutor(max_workers=nb) as ex:
        results = list(ex.map(validate_traces, chunks))
    bytr = {tr["id"]: tr for tr in traces}
    for verdicts, r in results:
        d = r.as_dict()
        d.update(spec="HashMemo", mode="trace-validation")
        total.mc.append(d)
        for tid, fails in verdicts.items():
            total.c2s += 1
            tr = bytr[tid]
            total.evaluations += len(tr["ev"])
            seen = {}
            for e in tr["ev"]:
                k = (e["s"], tuple(e["mk"]))
                seen.setdefault(k, set()).add(e["d"])
            for k, ds in seen.items():
                if len(ds) > 1:
                    total.nontriv(hash((tid, k)))
            for c in ("C18.len", "C18.range", "C18.pure_prefix", "C18.fnv_ref"):
                total.ok("C18", c + ".trace", len(tr["ev"]))
            for clause, idx in fails:
                e = tr["ev"][idx - 1]
                total.fail("C18", clause + ".trace", ENGINE, {"trace": tr["ev"][:idx], "event": e}, {"strategy": e["s"]})
    total.sample({"trace_events": [{k: v for k, v in e.items() if k in ("s", "key", "as_text", "d")} for e in traces[0]["ev"][:6]]})
    total.rules.append(
        "HashRef: every key of <= MaxLen bytes (+ random longer keys) x every listed seed, reference value computed by TLC; HashMemo: recorded call "
        "sequences with interleaved depths validated by TLC; non-trivial = a (key, seed) with seed != 0 or length >= 2, or a (strategy, key) queried at "
        "two different depths within one trace"
    )
    total.assumptions.append("md5/sha256 digests are not re-implemented in TLA+: for them purity, prefix stability, range and text/bytes agreement are decided, not digest values")
    return total
