"""Which requests the constructors accept: spec/Construct.tla (beyond the listed properties; rides in C07's evidence).  The real constructors
are called on a grid of small rational / integer / missing parameters, TLC decides for every request whether it must be accepted; a
mismatch is reported as conformance drift, never as a verdict."""
import itertools
import json
from fractions import Fraction

from ..core import Tally  # noqa: F401
from .. import tlc
from .layout import geom

ENGINE = "construct"


def enc(x):
    if x is None:
        return [0, 0]
    f = Fraction(x)
    return [f.numerator, f.denominator]


def run(focus, tier, seed):
    import probables as P
    from probables.utilities import Bitarray

    total = Tally(focus)
    ints = [None, -1, 0, 1, 2, 3]
    rats = [None, -0.25, 0.0, 0.25, 0.5, 0.75, 1.0, 1.5]
    cases, calls = [], []

    def add(cls, params, fn, aux=0):
        cases.append({"id": len(cases), "cls": cls, "p": [enc(x) for x in params], "aux": aux, "got": ""})
        calls.append(fn)

    for est, fpr in itertools.product([None, -1, 0, 1, 2, 5, 0.5], rats):
        aux = 0
        if est is not None and est > 0 and fpr is not None and 0 < fpr < 1:
            g = geom(est, fpr) if isinstance(est, int) else None
            if g is None and isinstance(est, int):
                continue      # near a rounding boundary: not decided here
            aux = 1 if (g is None or g[1] >= 1) else 0
            if g is None:     # non-integer est: independent evaluation of the number of hashes
                import math
                aux = 1 if round(math.log(2) * math.ceil(-est * math.log(fpr) / math.log(2) ** 2) / est) >= 1 else 0
        for cls in (P.BloomFilter, P.CountingBloomFilter, P.ExpandingBloomFilter):
            if cls is P.ExpandingBloomFilter and (est is None or fpr is None):
                continue      # the expanding filter has defaults for both
            add("bloom", [est, fpr], (lambda c=cls, e=est, f=fpr: c(est_elements=e, false_positive_rate=f)), aux)
    for w, d in itertools.product(ints + [0.5, 1.5], ints + [0.5]):
        add("cms_wd", [w, d], lambda w=w, d=d: P.CountMinSketch(width=w, depth=d))
    for c, e in itertools.product(rats, rats + [3.0]):
        add("cms_ce", [c, e], lambda c=c, e=e: P.CountMinSketch(confidence=c, error_rate=e))
    for cap, bs, ms, fs in itertools.product([-1, 0, 1, 2, 0.5], [0, 1, 2], [0, 1, 3], [0, 1, 4, 5]):
        for cls in (P.CuckooFilter, P.CountingCuckooFilter):
            add("cuckoo", [cap, bs, ms, fs], lambda k=cls, cap=cap, bs=bs, ms=ms, fs=fs: k(capacity=cap, bucket_size=bs, max_swaps=ms, finger_size=fs))
    for q in (-1, 0, 2, 3, 4, 10, 32, 40):
        add("qf", [q], lambda q=q: P.QuotientFilter(quotient=q))
    for n in (-1, 0, 1, 2, 9, 0.5):
        add("bits", [n], lambda n=n: Bitarray(n))
    for c, fn in zip(cases, calls):
        try:
            fn()
            c["got"] = "ok"
        except Exception:  # noqa
            c["got"] = "rejected"
    verdicts = {}

    def on_json(j):
        if isinstance(j, dict) and "verdict" in j:
            verdicts[j["verdict"]] = j

    r = tlc.run_tlc("Construct", "INIT Init\nNEXT Next\nCHECK_DEADLOCK FALSE\n", workers=1, timeout=600, on_json=on_json, files={"cases.json": json.dumps(cases)})
    if len(verdicts) != len(cases):
        raise tlc.MachineryError(f"Construct: {len(verdicts)} verdicts for {len(cases)} cases\n" + "\n".join(r.tail[-25:]))
    d = r.as_dict()
    d.update(spec="Construct", mode="case-validation")
    total.mc.append(d)
    total.c2s += len(cases)
    mism = [dict(cases[i], expected=v["expected"]) for i, v in verdicts.items() if v["expected"] != v["got"]]
    for m in mism:
        total.add_drift(ENGINE, {"constructor_request": m["cls"], "parameters": m["p"], "model_says": m["expected"], "code": m["got"]})
    total.extra["constructor_requests_decided_by_tlc"] = len(cases)
    total.extra["constructor_requests_accepted"] = sum(1 for c in cases if c["got"] == "ok")
    return total
