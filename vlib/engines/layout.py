"""C06: exported bytes follow the documented layout.  Code -> spec: histories are recorded from the real structures
running the library's default hash; TLC (spec/TraceLayout.tla over Layout.tla + FNV1a.tla) is the independent writer and
reader.  Geometry of Bloom-type structures is derived here from the documented formula with 50-digit arithmetic."""
import json
import os
import random as _random
import re
import struct
from decimal import Decimal, getcontext

from ..core import Tally  # noqa: F401
from .. import tlc
from .cuckoo import Script

ENGINE = "layout"


def geom(est, fpr):
    """documented sizing: m = ceil(-n ln p / ln^2 2), k = round(ln2 m / n), p narrowed to float32; None near a rounding boundary"""
    getcontext().prec = 50
    p32 = struct.unpack("f", struct.pack("f", fpr))[0]
    ln2 = Decimal(2).ln()
    x = -Decimal(est) * Decimal(p32).ln() / (ln2 * ln2)
    m = int(x.to_integral_value(rounding="ROUND_CEILING"))
    if abs(x - x.to_integral_value(rounding="ROUND_HALF_EVEN")) < Decimal("1e-6"):
        return None
    y = ln2 * m / Decimal(est)
    k = int(y.to_integral_value(rounding="ROUND_HALF_EVEN"))
    if abs((y - int(y)) - Decimal("0.5")) < Decimal("1e-6"):
        return None
    return m, k, list(struct.pack("f", fpr))


def rand_key(rnd):
    n = rnd.randint(1, 8)
    return bytes(rnd.randint(32, 126) for _ in range(n))


PHRASES = ["Zuverl\u00e4ssigkeitspr\u00fcfung der \u00dcbertragungsgeschwindigkeit f\u00fcr gro\u00dfe Datenmengen im Netz", "\u041f\u0440\u043e\u0432\u0435\u0440\u043a\u0430 \u0441\u0432\u044f\u0437\u0438 ",
           "\u691c\u7d22\u30af\u30a8\u30ea ", "na\u00efve caf\u00e9 ", "\u0395\u03bb\u03bb\u03b7\u03bd\u03b9\u03ba\u03ac "]


def rand_text_key(rnd):
    """a text key: short or long (> 64 characters), mostly with non-ASCII characters; its units are its code points"""
    base = rnd.choice(PHRASES)
    reps = rnd.choice([1, 1, 2, 9])
    return (base * reps + str(rnd.randint(0, 999)))[: rnd.choice([6, 20, 66, 90, 130])]


def record(seed, n_traces, n_ev, kinds):
    import probables as P
    import probables.cuckoo.cuckoo as m1
    import probables.cuckoo.countingcuckoo as m2

    rnd = _random.Random(seed)
    script = Script()
    traces = []
    tmpdir = tlc.new_scratch("layout")
    bloom_cfgs = [(10, 0.05), (1, 0.35), (2, 0.3), (3, 0.3), (5, 0.25), (6, 0.3), (4, 0.1), (8, 0.01), (1, 0.05), (7, 0.2)]
    for ti in range(n_traces):
        kind = kinds[ti % len(kinds)]
        keys = []
        unicode_keys = ti % 3 == 2      # every third trace: text keys with non-ASCII characters, some longer than 64 characters
        dense = kind in ("cko", "ccko") and (ti // len(kinds)) % 2 == 0      # small cuckoo tables that fill up: evictions and rejected additions
        while len(keys) < (rnd.randint(10, 14) if dense else rnd.randint(5, 9)):
            k = rand_text_key(rnd) if unicode_keys else rand_key(rnd)
            if k not in keys:
                keys.append(k)
        as_text = unicode_keys or rnd.random() < 0.5
        real_keys = keys if unicode_keys else [k.decode("ascii") if as_text else k for k in keys]
        tr = {"id": ti, "kind": kind, "m": 1, "k": 1, "w": 2, "est": 1, "rate4": [0, 0, 0, 0], "mode": "min", "bs": 1, "ms": 1, "cap": 1, "fb": 8,
              "qmax": 1, "keys": [[ord(c) for c in k] if isinstance(k, str) else list(k) for k in keys], "ev": [], "text_keys": as_text}
        disk = kind == "disk"       # the on-disk filter: same format, the FILE is the export (read back after every step)
        if disk:
            kind = tr["kind"] = "bloom"
        if kind in ("bloom", "cbloom", "ebf", "rbf"):
            while True:
                est, fpr = rnd.choice(bloom_cfgs)
                g = geom(est, fpr)
                if g and g[0] <= 80:
                    break
            tr.update(m=g[0], k=g[1], est=est, rate4=g[2])
            if disk:
                dpath = os.path.join(tmpdir, f"d{ti}.blm")
                obj = P.BloomFilterOnDisk(dpath, est_elements=est, false_positive_rate=fpr)
            elif kind == "bloom":
                obj = P.BloomFilter(est_elements=est, false_positive_rate=fpr)
            elif kind == "cbloom":
                obj = P.CountingBloomFilter(est_elements=est, false_positive_rate=fpr)
            elif kind == "ebf":
                obj = P.ExpandingBloomFilter(est_elements=est, false_positive_rate=fpr)
            else:
                tr["qmax"] = rnd.randint(1, 3)
                obj = P.RotatingBloomFilter(est_elements=est, false_positive_rate=fpr, max_queue_size=tr["qmax"])
        elif kind == "cms":
            w, d = rnd.choice([(2, 2), (3, 2), (5, 3), (4, 4), (7, 1), (2, 5), (16, 5), (9, 3), (50, 3), (99, 2), (104, 3)])
            mode = rnd.choice(["min", "mean", "mean-min"])
            if w >= 50:      # widths for which 1 / (w - 1) is not exact in doubles: the mean-min noise term must be an integer division;
                mode = "mean-min"      # the other keys get multiples of w - 1, so that (total - counter) sits exactly on the boundaries
            cls = {"min": P.CountMinSketch, "mean": P.CountMeanSketch, "mean-min": P.CountMeanMinSketch}[mode]
            obj = cls(width=w, depth=d)
            tr.update(w=w, k=d, mode=mode)
        else:
            cap, bs, fs = rnd.choice([(3, 2, 1), (2, 2, 2), (5, 1, 1), (4, 2, 3), (7, 1, 2)] if dense else [(8, 2, 1), (16, 2, 2), (11, 3, 3), (32, 1, 2), (3, 2, 1), (5, 1, 1)])
            cls = P.CuckooFilter if kind == "cko" else P.CountingCuckooFilter
            m1.random = script
            m2.random = script
            script.load([])
            # the small tables fill up: the rejected additions (no growth allowed, or a "growth" by factor 1 that cannot succeed) are part of the history
            grow = rnd.random() < 0.4                      # growth allowed: by factor 2, or by the degenerate factor 1 (a rebuild that cannot help)
            rate = rnd.choice([1, 2]) if grow else 2
            ms = rnd.choice([1, 2, 3, 5]) if dense else 5
            obj = cls(capacity=cap, bucket_size=bs, max_swaps=ms, finger_size=fs, auto_expand=grow, expansion_rate=rate)
            tr.update(cap=cap, bs=bs, ms=ms, fb=8 * fs)
        if kind in ("bloom", "cbloom") and not unicode_keys:
            # a key two of whose probes land on the same cell (hit once per occurrence by add AND by remove): searched for, since it is rare
            for _ in range(400):
                cand = rand_key(rnd)
                ck = cand.decode("ascii") if as_text else cand
                ps = [h % tr["m"] for h in obj.hashes(ck)]
                if len(set(ps)) < len(ps) and cand not in keys:
                    keys[0] = cand
                    real_keys[0] = ck
                    tr["keys"][0] = list(cand)
                    break
        outstanding = {i: 0 for i in range(len(keys))}
        for _ in range(n_ev + 8 if dense else n_ev):
            i = rnd.randrange(max(1, len(keys) - 3))  # the last three keys are probe-only: never added
            if kind == "cbloom" and rnd.random() < 0.3:
                i = 0                                   # the key with coinciding probes gets its share of additions and removals
            key = real_keys[i]
            ev = {"op": "add", "k": i + 1, "a": 1}
            try:
                if kind == "bloom":
                    if rnd.random() < 0.06:
                        ev = {"op": "clear", "k": 0, "a": 0}
                        obj.clear()
                    else:
                        obj.add(key)
                elif kind in ("cbloom", "cms"):
                    a = rnd.choice([1, 1, 2, 5])
                    if kind == "cms" and tr["w"] >= 50 and i != 0:
                        a = (tr["w"] - 1) * rnd.choice([1, 1, 2, 3])
                    if outstanding[i] > 0 and rnd.random() < 0.3:
                        a = rnd.randint(1, outstanding[i])
                        ev = {"op": "rem", "k": i + 1, "a": a}
                        obj.remove(key, a)
                        outstanding[i] -= a
                    else:
                        ev = {"op": "add", "k": i + 1, "a": a}
                        obj.add(key, a)
                        outstanding[i] += a
                elif kind in ("ebf", "rbf"):
                    r = rnd.random()
                    if r < 0.08:
                        ev = {"op": "push", "k": 0, "a": 0}
                        obj.push()
                    elif r < 0.14 and kind == "rbf" and obj.current_queue_size > 1:
                        ev = {"op": "pop", "k": 0, "a": 0}
                        obj.pop()
                    else:
                        force = rnd.random() < 0.2
                        ev = {"op": "add", "k": i + 1, "a": 1 if force else 0}
                        obj.add(key, force)
                else:
                    script.load([rnd.randint(0, 7) for _ in range(60)])
                    if dense or tr["cap"] <= 5:
                        i = rnd.randrange(len(keys))       # small tables: all keys, so that they fill
                        key = real_keys[i]
                        ev = {"op": "add", "k": i + 1, "a": 1}
                    if rnd.random() < (0.15 if dense else 0.3):
                        ev = {"op": "rem", "k": i + 1, "a": 0}
                        obj.remove(key)
                    else:
                        try:
                            obj.add(key)
                        except P.exceptions.CuckooFilterFullError:
                            ev = {"op": "fail", "k": i + 1, "a": 0}      # rejected: whatever was tried, the export holds what it held
            except Exception as exc:  # noqa
                ev["raised"] = repr(exc)
                tr["ev"].append(dict(ev, bytes=[], hex=[], ans=[], hdr=NOHDR))
                break
            data = bytes(obj)
            if disk:
                with open(dpath, "rb") as fh:
                    data = fh.read()
            hx = list(bytes.fromhex(obj.export_hex())) if kind in ("bloom", "cbloom") else []
            ans = [int(obj.check(k)) for k in real_keys]
            hdr = c_header(obj, tmpdir) if kind in ("bloom", "cbloom") and rnd.random() < 0.5 else NOHDR
            tr["ev"].append(dict(ev, bytes=list(data), hex=hx, ans=ans, hdr=hdr))
        traces.append(tr)
    return traces


NOHDR = {"on": 0, "ok": 0, "est": 0, "n": 0, "m": 0, "k": 0, "rate4": [], "data": []}
_HDR = re.compile(r"""\A/\*\ BloomFilter\ Export\ of\ a\ (standard\ BloomFilter|CountingBloomFilter)\ \*/\s*
\#include\ <inttypes.h>\s*
const\ uint64_t\ estimated_elements\ =\ (\d+);\s*
const\ uint64_t\ elements_added\ =\ (\d+);\s*
const\ float\ false_positive_rate\ =\ ([0-9.eE+-]+);\s*
const\ uint64_t\ number_bits\ =\ (\d+);\s*
const\ unsigned\ int\ number_hashes\ =\ (\d+);\s*
const\ unsigned\ char\ bloom\[\]\ =\ \{([^}]*)\};\s*\Z""", re.X)


def c_header(obj, tmpdir):
    """export_c_header, read back the way a C compiler would: the declarations and the initialiser list of the array"""
    path = os.path.join(tmpdir, "h.h")
    try:
        obj.export_c_header(path)
        text = open(path, encoding="utf-8").read()
    except Exception:  # noqa
        return dict(NOHDR, on=1)
    m = _HDR.match(text)
    if not m:
        return dict(NOHDR, on=1)
    kindtxt, est, n, rate, bits, nh, arr = m.groups()
    toks = [t.strip() for t in arr.replace("\n", " ").split(",") if t.strip()]
    if not all(re.fullmatch(r"0x[0-9a-fA-F]{1,2}", t) for t in toks) or (kindtxt == "CountingBloomFilter") != (type(obj).__name__ == "CountingBloomFilter"):
        return dict(NOHDR, on=1)
    if max(int(est), int(n), int(bits), int(nh)) >= 2 ** 31:
        return NOHDR
    return {"on": 1, "ok": 1, "est": int(est), "n": int(n), "m": int(bits), "k": int(nh), "rate4": list(struct.pack("<f", float(rate))), "data": [int(t, 16) for t in toks]}


CFG = """INIT Init
NEXT Next
CHECK_DEADLOCK FALSE
"""


def validate(traces, timeout=1200):
    slim = [{k: v for k, v in tr.items() if k != "text_keys"} for tr in traces]
    for tr in slim:
        tr["ev"] = [{k: e.get(k, NOHDR) for k in ("op", "k", "a", "bytes", "hex", "ans", "hdr")} for e in tr["ev"]]
    verdicts = {}

    def on_json(j):
        if isinstance(j, dict) and "verdict" in j:
            verdicts[j["verdict"]] = j["fails"]

    r = tlc.run_tlc("TraceLayout", CFG, workers=1, timeout=timeout, on_json=on_json, files={"traces.json": json.dumps(tlc.clamp_ints(slim))})
    if len(verdicts) != len(traces):
        raise tlc.MachineryError(f"TraceLayout: {len(verdicts)} verdicts for {len(traces)} traces\n" + "\n".join(r.tail[-25:]))
    return verdicts, r


def run(focus, tier, seed):
    total = Tally(focus)
    kinds = ["bloom", "cbloom", "cms", "ebf", "rbf", "cko", "ccko", "cms", "disk", "cko", "ccko", "bloom"]
    ntr, nev, nb = (72, 12, 12) if tier == "quick" else (960, 18, 16)
    traces = record(seed + 4242, ntr, nev, kinds)
    import concurrent.futures as cf

    chunks = [traces[i::nb] for i in range(nb)]
    with cf.ThreadPoolExecutor(max_workers=nb) as ex:
        results = list(ex.map(validate, chunks))
    bytr = {tr["id"]: tr for tr in traces}
    states = set()
    for verdicts, r in results:
        d = r.as_dict()
        d.update(spec="TraceLayout", mode="trace-validation")
        total.mc.append(d)
        for tid, fails in verdicts.items():
            tr = bytr[tid]
            total.c2s += 1
            total.evaluations += len(tr["ev"])
            for e in tr["ev"]:
                if e.get("raised"):
                    total.fail("C06", "C06.export_raises", ENGINE, {"trace": tr}, {"kind": tr["kind"]})
                key = (tr["kind"], tuple(e["bytes"]))
                if key not in states and (tr["m"] % 8 != 0 or tr["kind"] not in ("bloom",)):
                    states.add(key)
                    total.nontriv(hash(key))
            total.ok("C06", "C06.writer", len(tr["ev"]))
            if tr["kind"] in ("bloom", "cbloom"):
                total.ok("C06", "C06.hex", len(tr["ev"]))
                total.ok("C06", "C06.c_header", sum(1 for e in tr["ev"] if e.get("hdr", NOHDR)["on"]))
            if tr["kind"] in ("bloom", "cbloom", "cms"):
                total.ok("C06", "C06.reader", len(tr["ev"]) * len(tr["keys"]))
            for clause, idx in fails:
                total.fail("C06", clause, ENGINE, {"trace": {k: v for k, v in tr.items() if k != "ev"}, "events": tr["ev"][:idx]}, {"kind": tr["kind"]})
    total.extra["distinct_exported_states"] = len(states)
    total.sample({"kind": traces[0]["kind"], "keys": traces[0]["keys"][:3], "events": [{k: e[k] for k in ("op", "k", "a")} for e in traces[0]["ev"][:5]],
                  "first_export": traces[0]["ev"][0]["bytes"] if traces[0]["ev"] else []})
    total.rules.append(
        "Layout: seeded random histories on the real structures with the default FNV-1a hash (Bloom, counting Bloom, count-min in min/mean/mean-min mode, "
        "expanding, rotating; cuckoo and counting cuckoo incl. evictions, growth and rejected additions, judged as well-formed tables holding exactly the history's fingerprints), every step's exported bytes re-derived by the TLA+ reference writer and "
        "re-read by the TLA+ reference reader; non-trivial = distinct exported state whose bit array is not a whole number of bytes or that is not a plain Bloom filter"
    )
    total.assumptions.append("geometry of Bloom-type structures from a 50-digit evaluation of the documented formula; where a cuckoo fingerprint sits (bucket, slot) is the library's choice: the reference reads the table back instead of predicting it")
    total.assumptions.append("the reference reader divides with floor semantics (the documented Python behaviour), also on negative intermediates of mean / mean-min")
    return total
