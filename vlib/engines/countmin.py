"""CountMinSketch family against spec/CountMin.tla.  Serves C02 C12 C13 C14 C16 C17 C19 C05."""
import io
import os
import shutil
import struct
import tempfile
import zlib

from ..core import Tally, vary_buf  # noqa: F401
from .. import s2c, tlc
from .bloomfam import KEYMAP, Unmodelled, gen_tables, make_hash, strategy_fn, strategy_table

ENGINE = "countmin"
MOD = "vlib.engines.countmin"
NOV = -1000000


def mc_module(p, tables):
    tabs = ", ".join("[" + ", ".join(f"{k} |-> {tlc.tla_val(list(v))}" for k, v in sorted(t.items())) + "]" for t in tables)
    return (
        "MCCountMin",
        f"""---- MODULE MCCountMin ----
EXTENDS CountMin
cKeys == {tlc.tla_val(set(p['keys']))}
cTables == {{{tabs}}}
cAmts == {tlc.tla_val(set(p['amts']))}
cWhos == {tlc.tla_val(set(p['whos']))}
cCellMin == {tlc.tla_val(p['cellmin'])}
cTotMin == {tlc.tla_val(p['totmin'])}
cChannels == {tlc.tla_val(set(p.get('channels', ['bytes', 'file'])))}
cModes == {tlc.tla_val(set(p.get('modes', [])))}
cBad == {tlc.tla_val(set(p.get('bad', [])))}
====
""",
    )


def cfg(p, mode):
    inv = """INVARIANT TypeOK
INVARIANT Bounds
INVARIANT TotalMeaning
INVARIANT HHConsistent
INVARIANT STConsistent
INVARIANT STNeverMissing
PROPERTY RetIsCheck
PROPERTY JoinIsSum
PROPERTY SaturatedStays
"""
    return f"""CONSTANTS
  Keys <- cKeys
  W = {p['W']}
  D = {p['D']}
  Tables <- cTables
  Kind = "{p['kind']}"
  Mode = "{p['mode']}"
  CellMax = {p['cellmax']}
  CellMin <- cCellMin
  TotMax = {p['totmax']}
  TotMin <- cTotMin
  Amts <- cAmts
  NH = {p.get('nh', 1)}
  Thr = {p.get('thr', 1)}
  MaxTrue = {p['maxtrue']}
  MaxDepth = {p['maxdepth']}
  Whos <- cWhos
  AllowIllegit = {"TRUE" if p.get('illegit') else "FALSE"}
  Channels <- cChannels
  MaxReloads = {p.get('maxreloads', 1)}
  Queries = {"TRUE" if p.get('queries') else "FALSE"}
  Modes <- cModes
  Bad <- cBad
INIT Init
NEXT Next
VIEW {"ViewH" if p.get("histview") else "View"}
CONSTRAINT Bound
{inv if mode in ("mc", "both") else ""}
{"ACTION_CONSTRAINT Emit" if mode in ("emit", "both") else ""}
CHECK_DEADLOCK FALSE
"""


REAL = dict(cellmax=2**31 - 1, cellmin=-(2**31), totmax=2**63 - 1, totmin=-(2**63))


class Ctx:
    def __init__(self, tally, params):
        import probables.countminsketch.countminsketch as m
        from probables import CountMeanMinSketch, CountMeanSketch, CountMinSketch, HeavyHitters, StreamThreshold

        self.t = tally
        self.p = params
        self.m = m
        self.patched = bool(params.get("patch_limits"))
        lim = params if self.patched else REAL
        m.INT32_T_MAX, m.INT32_T_MIN, m.INT64_T_MAX, m.INT64_T_MIN = lim["cellmax"], lim["cellmin"], lim["totmax"], lim["totmin"]
        self.lim = lim
        self.patch_ok = True
        if self.patched:   # see bloomfam.py: skip the tiny-limit graph when the implementation does not read the patched limits
            try:
                probe = CountMinSketch(width=1, depth=1, hash_function=lambda k, d=1: [0] * d)
                probe.add("p", lim["cellmax"] + 2)
                self.patch_ok = probe.check("p") == lim["cellmax"]
            except Exception:  # noqa
                self.patch_ok = False
        if self.patched and self.patch_ok:
            # the patched constants may mean something else to another implementation (e.g. a size limit): the tiny-limit graph is replayed
            # only if an ordinary little history works under them on this geometry; otherwise it is skipped (the real-limit traces judge C16)
            try:
                probe = CountMinSketch(width=params["W"], depth=params["D"], hash_function=lambda k, d=1: list(range(d)))
                probe.add("p", 1)
                ok = probe.check("p") == 1 and probe.elements_added == 1
                ok = ok and CountMinSketch.frombytes(bytes(probe), hash_function=lambda k, d=1: list(range(d))).check("p") == 1
                probe.remove("p", 1)
                ok = ok and probe.check("p") == 0
                # ... and do remove and join read the patched limits as well (an implementation may have captured the real ones at import time)?
                hi, lo = lim["cellmax"], lim["cellmin"]
                one = lambda k, d=1: [0] * d  # noqa
                a, b = CountMinSketch(width=1, depth=1, hash_function=one), CountMinSketch(width=1, depth=1, hash_function=one)
                a.add("p", hi - 1)
                b.add("p", 2)
                a.join(b)                       # clamped at the patched upper limit
                ok = ok and a.check("p") == hi
                b.remove("p", 2 - lo + 1)       # clamped at the patched lower limit
                ok = ok and b.check("p") == lo
                a.join(b)                       # a pinned cell is left alone by a join (the limit it compares with is the patched one too)
                self.patch_ok = ok and a.check("p") == hi
            except Exception:  # noqa
                self.patch_ok = False
        self.kind, self.mode = params["kind"], params["mode"]
        self.cls = {"cms": {"min": CountMinSketch, "mean": CountMeanSketch, "meanmin": CountMeanMinSketch}[self.mode],
                    "hh": HeavyHitters, "st": StreamThreshold}[self.kind]
        self.base = CountMinSketch
        self.keys = sorted(params["keys"])
        self.strategy = params.get("strategy")
        self.rk = (lambda k: KEYMAP.get(k, k)) if self.strategy else (lambda k: k)
        self.W, self.D = params["W"], params["D"]
        self.tmp = tempfile.mkdtemp(prefix="cms-", dir=tlc.scratch_root())
        self.rt_seen = set()
        self.c19_seen = set()

    def close(self):
        shutil.rmtree(self.tmp, ignore_errors=True)

    def new(self, hf):
        kw = dict(width=self.W, depth=self.D, hash_function=hf)
        if self.kind == "hh":
            return self.cls(num_hitters=self.p["nh"], **kw)
        if self.kind == "st":
            return self.cls(threshold=self.p["thr"], **kw)
        return self.cls(**kw)

    def alt(self, o):
        """one model action, two entry points of the code (add / add_alt with hashes(key), ...), chosen deterministically per edge"""
        self.opno = getattr(self, "opno", 0) + 1
        return bool(zlib.crc32(repr((self.opno, o)).encode()) & 1)

    def apply(self, objs, o):
        s = objs[o[1]]
        if o[0] == "add":
            key = self.rk(o[2])
            if self.alt(o):
                return s.add_alt(s.hashes(key), o[3]) if self.kind == "cms" else s.add_alt(key, s.hashes(key), o[3])
            return s.add(key, o[3])
        if o[0] == "rem":
            key = self.rk(o[2])
            if self.alt(o) and self.kind != "hh":
                return s.remove_alt(s.hashes(key), o[3]) if self.kind == "cms" else s.remove_alt(key, s.hashes(key), o[3])
            return s.remove(key, o[3])
        if o[0] == "clear":
            return s.clear()
        if o[0] == "setq":
            # the documented forms of the setter: the names (any case), None and any other text for "min"
            forms = {"min": ["min", None, "MIN", "anything-else"], "mean": ["mean", "MEAN", "Mean"], "meanmin": ["mean-min", "MEAN-MIN", "Mean-Min"]}[o[2]]
            s.query_type = forms[zlib.crc32(repr((self.opno, o)).encode()) % len(forms)] if self.alt(o) else forms[0]
            return None
        if o[0] == "bad":      # a call the library rejects: more hashes than the sketch has rows; the caller catches the error and carries on
            key = self.rk(o[2])
            hs = list(s.hashes(key)) + [1, 2]
            try:
                if o[3] == 1:
                    s.add_alt(hs, 1) if self.kind == "cms" else s.add_alt(key, hs, 1)
                elif self.kind == "hh":
                    s.remove_alt(hs, 1)          # not supported for heavy hitters: rejected as well
                else:
                    s.remove_alt(hs, 1) if self.kind == "cms" else s.remove_alt(key, hs, 1)
            except Exception:  # noqa
                return None
            raise Unmodelled("the malformed call was accepted")
        if o[0] == "chk":
            key = self.rk(o[2])
            return s.check_alt(s.hashes(key)) if self.alt(o) else s.check(key)
        if o[0] == "join":
            return s.join(objs["B" if o[1] == "A" else "A"])
        if o[0] == "rt":
            hf = self.cur_hf       # the hash function the harness constructed the sketch with (None = the library default)
            if o[2] == "file":
                path = os.path.join(self.tmp, "rl.cms")
                s.export(path)
                objs[o[1]] = self.cls(filepath=path, hash_function=hf)
            else:
                objs[o[1]] = self.cls.frombytes(vary_buf(bytes(s), self.opno), hash_function=hf)
            if self.p.get("modes"):      # the format does not store the query method: re-supplied like the hash function
                objs[o[1]].query_type = s.query_type
            return None

    def cells(self, s):
        data = bytes(s)
        n = self.W * self.D
        return list(struct.unpack(f"{n}i", data[: 4 * n]))

    def table(self, s):
        back = {self.rk(k): k for k in self.keys}
        if self.kind == "hh":
            return [[back.get(k, k), v] for k, v in s.heavy_hitters.items()]
        if self.kind == "st":
            return [[back.get(k, k), v] for k, v in s.meets_threshold.items()]
        return []

    def observe(self, s):
        return {"cells": self.cells(s), "total": s.elements_added, "est": {k: s.check_alt(s.hashes(self.rk(k))) if self.alt(k) else s.check(self.rk(k)) for k in self.keys}, "tab": self.table(s)}

    def edge(self, e):
        t = self.t
        table = {k: tuple(v) for k, v in e["pos"].items()}
        hist, o, exp = e["h"], e["a"], e["e"]
        if not self.patch_ok:
            t.extra["skipped_limit_patch_ineffective"] = t.extra.get("skipped_limit_patch_ineffective", 0) + 1
            return
        hf = make_hash(table, size=self.W)
        if self.strategy:
            hf = None if self.strategy == "fnv" else strategy_fn(self.strategy)
        objs = {"A": self.new(hf), "B": self.new(hf)}
        self.cur_hf = hf
        self.opno = 0
        last_ret = {"A": {}, "B": {}}
        try:
            for op in hist:
                r = self.apply(objs, op)
                if op[0] in ("add", "rem"):
                    last_ret[op[1]][op[2]] = r
                elif op[0] == "clear":
                    last_ret[op[1]] = {}
        except Exception:  # noqa
            t.extra["skipped_history_raised"] = t.extra.get("skipped_history_raised", 0) + 1
            return
        t.evaluations += 1
        t.s2c += 1
        w = o[1]
        s = objs[w]
        other = objs["B" if w == "A" else "A"]
        sig = {"op": o[0], "kind": self.kind, "mode": self.mode}
        bytes_other = bytes(other)

        def rp(**kw):
            d = {"params": {k: v for k, v in self.p.items() if k != "tables"}, "table": table, "history": hist, "op": o, "expected": exp}
            d.update(kw)
            return d

        if t.focus == "C19":
            k19 = hash(repr((table, hist)))
            if k19 not in self.c19_seen:
                self.c19_seen.add(k19)
                self._c19(t, objs, hf, rp)
        bytes_self = bytes(s)
        try:
            ret = self.apply(objs, o)
            s = objs[w]
        except Unmodelled:
            t.extra["skipped_malformed_call_accepted"] = t.extra.get("skipped_malformed_call_accepted", 0) + 1
            return
        except Exception as exc:  # noqa
            t.fail("C05" if o[0] == "rt" else "C16", "C05.load_raises" if o[0] == "rt" else "C16.returns", ENGINE, rp(raised=repr(exc)), sig)
            if o[0] != "rt" and t.focus != "C16":
                raise      # a valid call raised inside the library: a verdict for the property being checked too (<focus>.unexpected_exception, see s2c.safe_edge)
            return
        if o[0] == "rt":
            t.check(bytes(s) == bytes_self, "C05", "C05.reexport.cms", ENGINE, rp, dict(sig, channel=o[2]))
        t.ok("C16", "C16.returns")
        if o[0] in ("add", "rem"):
            last_ret[w][o[2]] = ret
        elif o[0] == "clear":
            last_ret[w] = {}
        ex = exp[w]
        ob = self.observe(s)
        mode = ex.get("mode", self.mode)       # the query method in force (the query_type setter is an operation)
        rp2 = lambda **kw: rp(observed=ob, ret=ret, **kw)  # noqa
        legit = all(v >= 0 for v in ex["tru"].values())
        if mode == "min" and not ex["sat"] and legit:
            low = [k for k in self.keys if ob["est"][k] < ex["tru"][k]]
            t.check(not low, "C02", "C02.lower", ENGINE, lambda: rp2(below=low), sig)
            high = [k for k in self.keys if ob["est"][k] > ob["total"]]
            t.check(not high, "C02", "C02.upper", ENGINE, lambda: rp2(above=high), sig)
            t.check(ob["total"] == sum(ex["tru"].values()), "C02", "C02.total_is_net_sum", ENGINE, rp2, sig)
            iso = [k for k in self.keys if ex["iso"][k] and ob["est"][k] != ex["tru"][k]]
            t.check(not iso, "C02", "C02.exact_if_isolated", ENGINE, lambda: rp2(wrong=iso), sig)
            if o[0] in ("add", "rem"):
                t.check(ret == ob["est"][o[2]], "C02", "C02.ret_eq_check", ENGINE, rp2, sig)
        if not ex["sat"]:
            t.check(ob["total"] == ex["total"], "C14", "C14.count.cms", ENGINE, rp2, sig)
        if o[0] == "join":
            if not ex["sat"]:
                t.check(ob["cells"] == ex["cells"] and ob["total"] == ex["total"], "C12", "C12.cells.cms", ENGINE, rp2, sig)
                if mode == "min" and legit:
                    low = [k for k in self.keys if ob["est"][k] < ex["tru"][k]]
                    t.check(not low, "C12", "C12.sum_lower.cms", ENGINE, lambda: rp2(below=low), sig)
                if t.focus == "C12" and not any(op[0] == "rem" for op in hist):
                    single = self.new(hf)
                    for who in ("A", "B"):
                        stream = []
                        for op in hist:
                            if op[0] == "join":
                                stream = None
                                break
                            if op[1] == who:
                                stream = [] if op[0] == "clear" else stream + [op]
                        if stream is None:
                            single = None
                            break
                        for op in stream:
                            self.apply({who: single}, op)
                    if single is not None:
                        t.check(self.cells(single) == ob["cells"] and single.elements_added == ob["total"], "C12", "C12.cells_single_structure.cms", ENGINE,
                                lambda: rp2(single=self.cells(single)), sig)
                if any(ex["cells"][i] and exp["B" if w == "A" else "A"]["cells"][i] for i in range(len(ex["cells"]))):
                    t.nontriv(hash(repr((table, hist, o)))) if t.focus in ("C12", "C13") else None
            t.check(bytes(other) == bytes_other, "C13", "C13.join_operand_unchanged", ENGINE, rp2, sig)
            t.check(bytes(other) == bytes_other, "C19", "C19.join_operand_unchanged", ENGINE, rp2, sig)
        if self.patched:
            t.check(ob["cells"] == ex["cells"] and ob["total"] == ex["total"], "C16", "C16.no_half_update", ENGINE, rp2, sig)
            if ex["sat"]:
                t.nontriv(hash(repr((table, hist, o)))) if t.focus == "C16" else None
        # C19: clear() = fresh, judged by what happens AFTERWARDS (hidden state such as an eviction floor must be reset too): a newly
        # constructed object fed only the calls made since the last clear() must be in the same observable state
        if t.focus == "C19" and o[1] == w and o[0] != "join":
            full = list(hist) + [o]
            cut = max((i for i, op in enumerate(full) if op[0] == "clear" and op[1] == w), default=None)
            suffix = [op for op in full[cut + 1:] if op[1] == w or op[0] == "join"] if cut is not None else None
            if suffix is not None and not any(op[0] == "join" for op in full[cut + 1:]):
                g = {w: self.new(hf)}
                before = [op for op in full[:cut] if op[0] == "setq" and op[1] == w]
                if before:      # the query method is configuration, like the hash function: clear() keeps it
                    self.apply(g, before[-1])
                for op in suffix:
                    self.apply(g, op)
                og = self.observe(g[w])
                t.check(og == ob and bytes(g[w]) == bytes(s), "C19", "C19.clear_then_behaves_fresh.cms", ENGINE, lambda: rp2(fresh_object=og, since_clear=suffix), sig)
        # C17: the public tables against the values the real object itself returned
        if self.kind == "hh":
            lr = last_ret[w]
            tab = dict(self.table(s))
            t.check(len(tab) == min(self.p["nh"], len(lr)), "C17", "C17.hh_size", ENGINE, lambda: rp2(returned=lr), sig)
            t.check(all(k in lr and tab[k] == lr[k] for k in tab), "C17", "C17.hh_values", ENGINE, lambda: rp2(returned=lr), sig)
            if tab and not self.p.get("modes"):      # the order clause is about the class's own (min) query: estimates of a tracked key never drop there
                mn = min(tab.values())
                t.check(all(lr[k] <= mn for k in lr if k not in tab), "C17", "C17.hh_order", ENGINE, lambda: rp2(returned=lr), sig)
        if self.kind == "st":
            lr = last_ret[w]
            want = {k: v for k, v in lr.items() if v >= self.p["thr"]}
            t.check(dict(self.table(s)) == want, "C17", "C17.thr_exact", ENGINE, lambda: rp2(returned=lr), sig)
            if mode == "min" and not ex["sat"] and legit and not self.p.get("modes"):      # a consequence of the min query's lower bound: stated for
                miss = [k for k in self.keys if k in lr and ex["tru"][k] >= self.p["thr"] and k not in dict(self.table(s))]
                t.check(not miss, "C17", "C17.thr_never_missing", ENGINE, lambda: rp2(missing=miss), sig)
        # drift
        extab = [list(x) for x in ex["tab"]]
        dr = ob["cells"] != ex["cells"] or ob["total"] != ex["total"] or ob["est"] != ex["est"]
        dr = dr or {"min": "min", "mean": "mean", "meanmin": "mean-min"}[mode] != s.query_type
        if self.kind == "hh":
            dr = dr or ob["tab"] != extab
        if self.kind == "st":
            dr = dr or sorted(ob["tab"]) != sorted(extab)
        if o[0] in ("add", "rem") and ret != e["ret"]:
            dr = True
        if dr:
            t.add_drift(ENGINE, {"table": table, "history": hist, "op": o, "expected": ex, "observed": ob, "ret": ret, "expected_ret": e["ret"]})
        if self.patched and o[0] in ("add", "rem"):
            t.check(ret == e["ret"], "C16", "C16.pinned_value", ENGINE, lambda: rp2(expected_ret=e["ret"]), sig)
        if t.focus in ("C05", "C16", "C14"):
            key = hash(repr((table, ob["cells"], ob["total"])))
            if key not in self.rt_seen:
                self.rt_seen.add(key)
                self._roundtrip(t, hf, s, ob, rp2, sig)
        # non-trivial: the key shares a counter with another live key
        if o[0] in ("add", "rem") and t.focus not in ("C16", "C12", "C13"):
            mine = {(i, table[o[2]][i] % self.W) for i in range(self.D)}
            oth = set()
            for k in self.keys:
                if k != o[2] and ex["tru"][k] != 0:
                    oth |= {(i, table[k][i] % self.W) for i in range(self.D)}
            if mine & oth:
                t.nontriv(hash(repr((table, hist, o))))
        t.sample({"geometry": [self.W, self.D], "kind": self.kind, "mode": self.mode, "table": table, "history": hist[-4:], "op": o, "expected": ex})

    def _roundtrip(self, t, hf, s, ob, rp2, sig):
        data = bytes(s)
        path = os.path.join(self.tmp, "rt.cms")
        s.export(path)
        bio = io.BytesIO()
        s.export(bio)
        t.check(open(path, "rb").read() == data == bio.getvalue(), "C05", "C05.channels_agree.cms", ENGINE, rp2, sig)
        extra = {}
        if self.kind == "hh":
            extra = {"num_hitters": self.p["nh"]}
        if self.kind == "st":
            extra = {"threshold": self.p["thr"]}
        loads = [("frombytes", lambda: self.cls.frombytes(data, hash_function=hf, **extra)), ("filepath", lambda: self.cls(filepath=path, hash_function=hf, **extra))]
        for name, mk in loads:
            s2 = dict(sig, channel=name)
            try:
                g = mk()
            except Exception as exc:  # noqa
                t.fail("C05", "C05.load_raises", ENGINE, rp2(channel=name, raised=repr(exc)), s2)
                continue
            if self.p.get("modes"):      # the format does not store the query method: re-supplied like the hash function
                g.query_type = s.query_type
            o2 = {"cells": self.cells(g), "total": g.elements_added, "est": {k: g.check(self.rk(k)) for k in self.keys}}
            t.check(o2["est"] == ob["est"], "C05", "C05.queries.cms", ENGINE, lambda: rp2(channel=name, loaded=o2), s2)
            t.check((g.width, g.depth, g.elements_added, g.query_type) == (s.width, s.depth, s.elements_added, s.query_type) and type(g) is type(s),
                    "C05", "C05.geometry.cms", ENGINE, lambda: rp2(channel=name, loaded=o2, loaded_type=type(g).__name__), s2)
            t.check(bytes(g) == data, "C05", "C05.reexport.cms", ENGINE, lambda: rp2(channel=name, loaded=o2), s2)
            t.check(o2["total"] == ob["total"], "C14", "C14.count.cms_reload", ENGINE, lambda: rp2(channel=name, loaded=o2), s2)
            if self.patched:
                t.check(bytes(g) == data, "C16", "C16.exportable", ENGINE, lambda: rp2(channel=name), s2)
        if t.focus == "C05" and ob["total"] != 0:
            t.nontriv(hash(repr((self.kind, self.mode, ob["cells"], ob["total"]))))

    def _c19(self, t, objs, hf, rp):
        for who, s in objs.items():
            b0 = bytes(s)
            tab0 = self.table(s)
            other = objs["B" if who == "A" else "A"]
            try:
                for k in self.keys + ["absent-key"]:
                    s.check(k)
                    k in s  # noqa
                    s.hashes(k)
                str(s)
                s.query_type, s.width, s.depth, s.confidence, s.error_rate, s.elements_added  # noqa
                bytes(s)
                s.export(io.BytesIO())
                s.export(os.path.join(self.tmp, "c19.cms"))
                if self.kind == "cms":
                    import copy

                    copy.deepcopy(other).join(s)
            except Exception as exc:  # noqa
                t.fail("C19", "C19.query_raises", ENGINE, rp(raised=repr(exc), who=who), {"kind": self.kind})
                continue
            t.check(bytes(s) == b0 and self.table(s) == tab0, "C19", "C19.cms_queries_unchanged", ENGINE, lambda: rp(who=who), {"kind": self.kind, "mode": self.mode})
            if s.elements_added != 0:
                t.nontriv(hash(repr((self.kind, self.mode, b0))))
            import copy

            g = copy.deepcopy(s)
            g.clear()
            fresh = self.new(hf)
            t.check(bytes(g) == bytes(fresh) and self.table(g) == [] and g.elements_added == 0 and all(g.check(self.rk(k)) == 0 for k in self.keys),
                    "C19", "C19.clear_fresh.cms", ENGINE, lambda: rp(who=who), {"kind": self.kind})


def profiles(tier, seed, light=False, focus=None):
    P = []
    far = dict(cellmax=100000, cellmin=-100000, totmax=100000, totmin=-100000)
    base = dict(far, keys=["a", "b", "c"], amts=[1, 2], whos=["A", "B"], kind="cms", mode="min", maxtrue=3, maxdepth=4)
    tiny = dict(cellmax=3, cellmin=-3, totmax=5, totmin=-5, patch_limits=True, illegit=True, amts=[1, 2, 4, 7], maxtrue=9, keys=["a", "b"])
    if tier == "quick":
        solo = dict(base, whos=["A"], maxdepth=4, maxtrue=3)
        P.append(dict(solo, W=2, D=2, H=5, ntables=6))
        P.append(dict(solo, W=1, D=1, H=2, ntables=1))
        P.append(dict(solo, W=1, D=2, H=2, ntables=1, maxdepth=3))          # one column, several rows
        P.append(dict(solo, W=3, D=2, H=7, ntables=4, maxdepth=3, bad=[1, 2]))      # + additions / removals the library rejects (hash list too long)
        P.append(dict(base, W=2, D=2, H=5, ntables=4, maxdepth=3, maxtrue=2))
        P.append(dict(base, W=2, D=1, H=3, ntables=3, maxdepth=3, maxtrue=2, keys=["a", "b"]))
        P.append(dict(solo, W=2, D=2, H=5, ntables=3, mode="mean", maxdepth=3))
        P.append(dict(solo, W=2, D=3, H=5, ntables=3, mode="meanmin", maxdepth=3))
        P.append(dict(base, W=2, D=2, H=5, ntables=4, kind="hh", nh=2, whos=["A"], keys=["a", "b", "c", "d"], amts=[1, 2], maxdepth=4, maxtrue=4))
        P.append(dict(base, W=1, D=1, H=2, ntables=1, kind="hh", nh=1, whos=["A"], keys=["a", "b", "c"], amts=[1, 2], maxdepth=5, maxtrue=4))
        P.append(dict(base, W=2, D=1, H=3, ntables=3, kind="hh", nh=2, whos=["A"], keys=["a", "b", "c"], amts=[0, 1], maxdepth=4, maxtrue=3))     # amount 0 is a valid call
        P.append(dict(base, W=2, D=2, H=5, ntables=4, kind="st", thr=2, whos=["A"], maxdepth=4, maxtrue=3, bad=[1, 2], keys=["a", "b"]))
        P.append(dict(base, W=1, D=1, H=2, ntables=1, kind="st", thr=3, whos=["A"], amts=[1, 3], maxdepth=5, maxtrue=4))
        P.append(dict({**base, **tiny}, W=2, D=2, H=5, ntables=4, maxdepth=3, whos=["A"]))
        P.append(dict({**base, **tiny}, W=2, D=1, H=3, ntables=3, maxdepth=3, amts=[2, 4]))
        # the query_type setter as an operation: the bounds must hold whenever the min query is in force, whatever it was before
        P.append(dict(solo, W=2, D=2, H=5, ntables=3, keys=["a", "b"], modes=["min", "mean", "meanmin"], maxdepth=4))
        P.append(dict(base, W=2, D=1, H=3, ntables=2, kind="st", thr=2, whos=["A"], keys=["a", "b"], modes=["min", "mean"], maxdepth=4, maxtrue=3))
        P.append(dict(base, W=2, D=2, H=5, ntables=2, kind="hh", nh=1, whos=["A"], keys=["a", "b"], modes=["mean", "meanmin"], maxdepth=4, maxtrue=3))
    else:
        solo = dict(base, whos=["A"], maxdepth=5, maxtrue=3)
        P.append(dict(solo, W=2, D=2, H=3, ntables=0, exhaustive=True, keys=["a", "b"], maxdepth=4))          # every table of the smallest geometry
        for (W, D, H, n) in [(1, 1, 2, 2), (2, 2, 5, 14), (3, 2, 7, 12), (3, 3, 7, 8), (5, 4, 11, 6), (2, 1, 5, 6), (1, 3, 2, 3)]:
            P.append(dict(solo, W=W, D=D, H=H, ntables=n, bad=[1, 2] if (W, D) in ((3, 2), (2, 1)) else []))
        for (W, D, H, n) in [(2, 2, 5, 4), (3, 2, 7, 3), (2, 1, 3, 2)]:                                          # pairs: join
            P.append(dict(base, W=W, D=D, H=H, ntables=n, maxdepth=4, maxtrue=2))
        for mode in ("mean", "meanmin"):
            for (W, D, H, n) in [(2, 2, 5, 6), (3, 3, 7, 5), (2, 3, 5, 5)]:
                P.append(dict(solo, W=W, D=D, H=H, ntables=n, mode=mode, maxdepth=4))
        for nh in (1, 2, 3):
            P.append(dict(base, W=2, D=2, H=5, ntables=5, kind="hh", nh=nh, whos=["A"], keys=["a", "b", "c", "d"], maxdepth=5, maxtrue=4, bad=[1, 2] if nh == 1 else []))
        P.append(dict(base, W=1, D=2, H=2, ntables=1, kind="hh", nh=2, whos=["A"], keys=["a", "b", "c", "d"], maxdepth=6, maxtrue=4))
        P.append(dict(base, W=2, D=1, H=3, ntables=4, kind="hh", nh=2, whos=["A"], keys=["a", "b", "c"], amts=[0, 1, 2], maxdepth=5, maxtrue=4))
        P.append(dict(base, W=2, D=1, H=3, ntables=4, kind="st", thr=1, whos=["A"], keys=["a", "b"], amts=[0, 1], maxdepth=5, maxtrue=3))
        for thr in (1, 2, 3):
            P.append(dict(base, W=2, D=2, H=5, ntables=5, kind="st", thr=thr, whos=["A"], amts=[1, 3], maxdepth=5, maxtrue=4))
        P.append(dict(base, W=1, D=1, H=2, ntables=1, kind="st", thr=3, whos=["A"], amts=[1, 3], maxdepth=6, maxtrue=5))
        for (W, D, H) in [(2, 2, 5), (1, 1, 2), (3, 2, 7)]:
            P.append(dict({**base, **tiny}, W=W, D=D, H=H, ntables=4, maxdepth=4, whos=["A"]))
        P.append(dict({**base, **tiny}, W=2, D=1, H=3, ntables=8, maxdepth=3, amts=[2, 4]))
        for (W, D, H, n) in [(2, 2, 5, 6), (3, 2, 7, 4), (2, 3, 5, 3)]:
            P.append(dict(solo, W=W, D=D, H=H, ntables=n, modes=["min", "mean", "meanmin"], maxdepth=5))
        P.append(dict(solo, W=1, D=2, H=2, ntables=1, modes=["min", "mean"], maxdepth=5))
        P.append(dict(base, W=2, D=2, H=5, ntables=3, maxdepth=4, maxtrue=2, keys=["a", "b"], modes=["min", "mean"]))     # joins of sketches in different modes
        P.append(dict(base, W=2, D=2, H=5, ntables=4, kind="st", thr=2, whos=["A"], modes=["min", "mean", "meanmin"], maxdepth=5, maxtrue=3))
        P.append(dict(base, W=2, D=2, H=5, ntables=4, kind="hh", nh=2, whos=["A"], keys=["a", "b", "c"], modes=["min", "mean", "meanmin"], maxdepth=5, maxtrue=3))
    # every HISTORY (no state merging) of the smallest tables: what the code does after clear() / reload for every preceding history
    # and queries are operations of those histories (a memo of the last answer only shows in what happens after the query)
    hv = dict(base, W=1, D=1, H=2, ntables=1, whos=["A"], histview=True, maxreloads=1, queries=True)
    P.append(dict(hv, kind="hh", nh=1, keys=["a", "b"], amts=[1, 2], maxdepth=5, maxtrue=5, queries=False))
    P.append(dict(hv, kind="st", thr=3, keys=["a", "b"], amts=[1, 3], maxdepth=4 if tier == "quick" else 5, maxtrue=6, queries=False))
    P.append(dict(hv, kind="cms", W=2, D=1, H=3, keys=["a", "b"], amts=[2], maxdepth=5, maxtrue=4, channels=["bytes"], ntables=4))   # colliding and disjoint keys
    P.append(dict(hv, kind="hh", nh=1, keys=["a", "b"], amts=[1], maxdepth=5, maxtrue=5))
    # removals of what was never added are valid calls (counters go below zero): the total can be back at 0 while counters are not
    P.append(dict(hv, kind="cms", W=2, D=1, H=3, keys=["a", "b"], amts=[2], maxdepth=4, maxtrue=4, illegit=True, channels=["bytes"], ntables=2,
                  queries=False, only=("C19", "C14")))
    if tier != "quick":
        P.append(dict(hv, kind="hh", nh=2, keys=["a", "b", "c"], amts=[1, 2], maxdepth=5, maxtrue=5, W=2, H=3, queries=False))
        P.append(dict(hv, kind="cms", W=2, D=2, H=3, keys=["a", "b"], amts=[1, 2], maxdepth=5, maxtrue=4, channels=["bytes"]))
        P.append(dict(hv, kind="st", thr=2, keys=["a", "b"], amts=[1, 2], maxdepth=5, maxtrue=5))
    solo2 = dict(base, whos=["A"], maxdepth=4 if tier == "quick" else 5, maxtrue=3, H=0, ntables=1)
    for i, st in enumerate(["fnv", "md5", "sha256", "deco_int", "handwritten"] if tier == "quick" else ["fnv", "md5", "sha256", "deco_int", "deco_bytes", "handwritten"]):
        W, D = [(2, 2), (3, 2), (5, 3)][i % 3]
        if tier == "quick" and i % 2:
            continue
        P.append(dict(solo2, W=W, D=D, strategy=st))
    P.append(dict(solo2, W=2, D=2, strategy="fnv", kind="hh", nh=2, keys=["a", "b", "c", "d"], maxtrue=4))
    P.append(dict(solo2, W=2, D=2, strategy="md5", kind="st", thr=2))
    if light and tier == "quick":
        # C19: the tables of HeavyHitters / StreamThreshold keep hidden state across clear(): their histories keep the full depth
        P = [dict(p, ntables=min(p["ntables"], 2), maxdepth=p["maxdepth"] if (focus == "C19" and p.get("histview")) else min(p["maxdepth"], 4))
             for p in P if not p.get("patch_limits")]
    if light and tier == "thorough":
        P = [dict(p, ntables=max(2, p["ntables"] // 3)) if p["ntables"] > 1 else p for p in P if not p.get("patch_limits") and not p.get("exhaustive")]
    for i, p in enumerate(P):
        if p.get("strategy"):
            p["tables"] = [strategy_table(p["strategy"], p["keys"], p["D"], p["W"])]
            continue
        p["tables"] = gen_tables(p["keys"], p["W"], p["D"], p["H"], p["ntables"], seed * 1000 + 500 + i, p.get("exhaustive", False))
    return P


FOCUS_FILTER = {
    "C02": lambda p: (p["mode"] == "min" or p.get("modes")) and not p.get("patch_limits"),
    "C16": lambda p: p.get("patch_limits"),
    "C17": lambda p: p["kind"] in ("hh", "st"),
    "C12": lambda p: p["kind"] == "cms" and not p.get("patch_limits"),
    "C13": lambda p: p["kind"] == "cms" and not p.get("patch_limits"),
}
INVPROP = {"TypeOK": "C16", "Bounds": "C02", "TotalMeaning": "C14", "HHConsistent": "C17", "STConsistent": "C17", "STNeverMissing": "C17",
           "RetIsCheck": "C02", "JoinIsSum": "C12", "SaturatedStays": "C16"}


def run(focus, tier, seed):
    total = Tally(focus)
    jobs = []
    for p in profiles(tier, seed, focus in ("C05", "C14", "C19"), focus):
        if (focus in FOCUS_FILTER and not FOCUS_FILTER[focus](p)) or (p.get("histview") and focus not in ("C19", "C17", "C14", "C02")):
            continue
        if p.get("only") and focus not in p["only"]:
            continue
        tabs = p["tables"]
        const = {k: v for k, v in p.items() if k != "tables"}
        const["tables"] = len(tabs)
        chunk = max(1, (len(tabs) + 3) // 4) if tier == "thorough" and len(tabs) > 12 else max(1, (len(tabs) + 2) // 3)
        for i in range(0, len(tabs), chunk):
            mod = mc_module(p, tabs[i:i + chunk])
            pp = {k: v for k, v in p.items() if k != "tables"}
            jobs.append(dict(module=mod, cfg=cfg(p, "both"), workers=1, timeout=3000, params=pp, tag=("mc", const)))
    nsim = 0
    for p in profiles(tier, seed, focus in ("C05", "C14", "C19"), focus):
        if focus in FOCUS_FILTER and not FOCUS_FILTER[focus](p):
            continue
        if p.get("exhaustive") or p.get("histview") or (tier == "quick" and focus in ("C05", "C14", "C19")):
            continue
        ps = dict(p, maxdepth=14, maxtrue=p["maxtrue"] + 4, maxreloads=2)
        const = {k: v for k, v in ps.items() if k != "tables"}
        const.update(tables=len(ps["tables"]), mode="simulate")
        pp = {k: v for k, v in ps.items() if k != "tables"}
        jobs.append(dict(module=mc_module(ps, ps["tables"]), cfg=cfg(ps, "both"), workers=1, timeout=3000, params=pp, tag=("mc", const),
                         simulate=(40 if tier == "quick" else 500), depth=14, seed=seed + 57 + nsim))
        nsim += 1
    total.exhaustive = False
    t, rs = s2c.run_s2c(MOD, focus, jobs, tlc_parallel=10)
    total.merge(t)
    agg = {}
    for job, r in zip(jobs, rs):
        kind, const = job["tag"]
        total.extra["emitted"] = total.extra.get("emitted", 0) + r.emitted
        a = agg.setdefault(repr(const), {"spec": "CountMin", "constants": const, "mode": const.get("mode", "exhaustive+emit"), "generated": 0, "distinct": 0, "depth": 0, "wall_s": 0, "ok": True})
        a["generated"] += r.generated
        a["distinct"] += r.distinct
        a["depth"] = max(a["depth"], r.depth)
        a["wall_s"] = round(max(a["wall_s"], r.wall), 1)
        for inv in r.invariant_violations:
            a["ok"] = False
            prop = INVPROP.get(inv, focus)
            total.fail(prop, f"{prop}.model.{inv}", ENGINE, {"tlc": r.error_trace[:80] or r.tail[-30:], "constants": const}, {"model": inv})
    total.mc += list(agg.values())
    total.rules.append(
        "CountMin: every transition TLC generates for two sketches over a table-driven hash function (collision shapes + seeded tables) is executed on "
        "the real CountMinSketch / CountMean / CountMeanMin / HeavyHitters / StreamThreshold; non-trivial = distinct (table, history, op) on a key that "
        "shares a counter with another live key (C16: a step in a history that clamped; C12: a join whose operands overlap)"
    )
    total.assumptions.append("widths <= 5, depths <= 4; hash function table-driven; C16 limits are the module constants patched to +-3 / +-5 (real limits: limb trace check)")
    return total
