"""Spec -> code: TLC emits one JSON line per generated transition (ACTION_CONSTRAINT Emit);
lines are executed against the real classes by a pool of worker processes."""
import importlib
import multiprocessing
import json
import os
import threading
import time
from concurrent.futures import ProcessPoolExecutor, wait, FIRST_COMPLETED

from . import tlc
from .core import Tally


def raised_in_library(frames):
    """walking from the innermost frame outwards, the first frame that belongs either to the library or to the harness decides who raised:
    the library (also when the exception surfaced in the standard library it called: open(), copyfile(), struct ...) - returns that
    frame - or the harness itself (None)"""
    for fr in reversed(frames):
        fn = fr.filename.replace("\\", "/")
        if "/vlib/" in fn:
            return None
        if "/probables/" in fn:
            return fr
    return None


def safe_edge(ctx, t, modname, e):
    """executes one emitted transition; an exception that escapes from the LIBRARY on a call the model allows (innermost frame in the
    repository's package) is a verdict on the code - clause <focus>.unexpected_exception - and not a failure of the machinery;
    an exception raised by the harness itself propagates (exit 2)"""
    import traceback

    try:
        ctx.edge(e)
    except Exception as exc:  # noqa
        if type(exc).__name__ == "Unmodelled":      # the code did something the model has no action for (e.g. it accepted a call the
            t.extra["skipped_unmodelled"] = t.extra.get("skipped_unmodelled", 0) + 1      # model treats as rejected): not judged further
            return
        frames = traceback.extract_tb(exc.__traceback__)
        fr = raised_in_library(frames)
        if fr is None:
            raise
        inner = fr.filename
        where = f"{inner.split('/probables/')[-1]}:{fr.lineno}"
        t.fail(t.focus, f"{t.focus}.unexpected_exception", modname.split(".")[-1],
               {"raised": repr(exc), "where": where, "history": e.get("h"), "op": e.get("a"), "note": "a public call on a state the model allows raised inside the library"},
               {"where": where.split(":")[0], "type": type(exc).__name__})


def _worker(args):
    modname, focus, lines, params = args
    mod = importlib.import_module(modname)
    t = Tally(focus)
    ctx = mod.Ctx(t, params)
    for ln in lines:
        e = json.loads(json.loads(ln))
        t.cur = {"module": modname, "params": params, "edge": e}
        safe_edge(ctx, t, modname, e)
    t.cur = None
    ctx.close()
    return t


def run_s2c(modname, focus, jobs, params=None, nproc=None, batch=1500, tlc_parallel=4):
    """jobs: list of dicts(module=, cfg=, **run_tlc kwargs).  Returns (Tally, [TLCResult])."""
    nproc = nproc or max(2, (os.cpu_count() or 4) - min(tlc_parallel, len(jobs)))
    total = Tally(focus)
    results = [None] * len(jobs)
    errors = []
    pending = set()
    lock = threading.Lock()
    sem = threading.Semaphore(nproc * 3)
    # forkserver: never fork the (multi-threaded) parent itself
    pool = ProcessPoolExecutor(max_workers=nproc, mp_context=multiprocessing.get_context("forkserver"))

    def submit(lines, jparams):
        sem.acquire()
        fut = pool.submit(_worker, (modname, focus, lines, jparams))
        fut.add_done_callback(lambda f: sem.release())
        with lock:
            pending.add(fut)

    def run_job(i, job):
        buf = []
        jparams = job.get("params", params or {})

        def on_raw(line):
            buf.append(line)
            if len(buf) >= batch:
                submit(list(buf), jparams)
                buf.clear()

        try:
            kw = {k: v for k, v in job.items() if k not in ("module", "cfg", "params", "tag")}
            results[i] = tlc.run_tlc(job["module"], job["cfg"], on_raw=on_raw, **kw)
            if buf:
                submit(list(buf), jparams)
        except Exception as e:  # noqa
            errors.append(e)

    jsem = threading.Semaphore(tlc_parallel)

    def guarded(i, job):
        with jsem:
            run_job(i, job)

    threads = [threading.Thread(target=guarded, args=(i, j)) for i, j in enumerate(jobs)]
    for th in threads:
        th.start()
    for th in threads:
        th.join()
    with lock:
        futs = list(pending)
    for f in futs:
        total.merge(f.result())
    pool.shutdown()
    if errors:
        raise errors[0]
    return total, results
