"""./check replay <path>: re-execute the single case stored in a replay file against the current /repo tree."""
import importlib
import json
import sys

from .core import Tally


def main(path):
    body = json.load(open(path))
    prop, clause = body["property"], body["clause"]
    rp = body.get("_replay")
    if rp is None and body.get("engine") == "scale" and body.get("rerun"):
        from .engines import scale

        fails = scale.replay(body)
        print(f"replayed property={prop} original_clause={clause} clauses_failing_now={fails or 'none'}")
        if fails:
            print(f"VIOLATION property={prop} replay={path}")
            return 1
        return 0
    if rp is None and body.get("engine") == "repotests":
        from .engines import repotests

        fails = repotests.replay(body)
        print(f"replayed property={prop} original_clause={clause} test={body['test']} clauses_failing_now={fails or 'none'}")
        if fails:
            print(f"VIOLATION property={prop} replay={path}")
            return 1
        return 0
    if rp is None:
        if body.get("engine") in ("hashes", "layout", "sizing"):
            return replay_trace(body)
        print(f"replay file {path} carries no executable case (model-level or aggregate finding); see its 'tlc' / 'expected' fields")
        return 2
    mod = importlib.import_module(rp["module"])
    t = Tally(prop)
    ctx = mod.Ctx(t, rp["params"])
    t.cur = rp
    from .s2c import safe_edge

    safe_edge(ctx, t, rp["module"], rp["edge"])
    ctx.close()
    failed = sorted({v.clause for v in t.violations})
    print(f"replayed property={prop} original_clause={clause} clauses_failing_now={failed or 'none'} drift={t.drift}")
    for v in t.violations[:3]:
        print(json.dumps({k: v.replay[k] for k in v.replay if k not in ("_replay", "params")}, default=str)[:1500])
    if failed:
        print(f"VIOLATION property={prop} replay={path}")
        return 1
    return 0


def replay_trace(body):
    prop = body["property"]
    eng = body["engine"]
    if eng == "layout":
        from .engines import layout

        tr = dict(body["trace"], ev=body["events"])
        verdicts, _ = layout.validate([tr])
        fails = verdicts[tr["id"]]
    elif eng == "hashes":
        from .engines import hashes

        tr = {"id": 0, "ev": body["trace"]}
        verdicts, _ = hashes.validate_traces([tr])
        fails = verdicts[0]
    else:
        print("sizing findings are replayed by constructing the structure with the recorded arguments:", {k: body[k] for k in body if k not in ("signature",)})
        return 2
    print(f"replayed property={prop} fails_now={fails}")
    if fails:
        print(f"VIOLATION property={prop} replay=<given>")
        return 1
    return 0


if __name__ == "__main__":
    sys.exit(main(sys.argv[1]))
