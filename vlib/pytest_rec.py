"""pytest plugin (kept in /verif, loaded with `-p vlib.pytest_rec`): records what the repository's OWN tests do to the structures
as traces in the TraceScale.tla format, so that TLC re-judges those executions with the specification's clauses at every step
(the tests' own assertions are often weaker: they look at one value at the end).  Nothing in /repo is modified on disk; the
classes are wrapped in memory for the duration of the test session only.

Only objects that start empty (constructed from parameters, not loaded) are traced, and only through the public single-key
API; as soon as something else mutates a traced object (add_alt, a loader, a setter ...) its trace is closed."""
import json
import os

_TR = []          # traces
_BY = {}          # id(obj) -> trace
_DEPTH = [0]


def _kind(obj):
    n = type(obj).__name__
    return {"BloomFilter": "bloom", "BloomFilterOnDisk": "disk", "CountingBloomFilter": "cbloom", "CountMinSketch": "cms", "CountMeanSketch": None,
            "CountMeanMinSketch": None, "HeavyHitters": "cms", "StreamThreshold": "cms", "ExpandingBloomFilter": "ebf", "RotatingBloomFilter": "rbf",
            "QuotientFilter": "qf", "CuckooFilter": "cko", "CountingCuckooFilter": "ccko"}.get(n)


def _start(obj):
    kind = _kind(obj)
    if kind is None:
        return None
    tr = {"id": len(_TR), "kind": kind, "m": 1, "k": 1, "w": 1, "d": 1, "est": 1, "qmax": 1, "q": 3, "auto": False, "pos": [], "ev": [], "keys": {}, "open": True,
          "cls": type(obj).__name__, "test": os.environ.get("PYTEST_CURRENT_TEST", "")}
    try:
        if kind in ("bloom", "disk", "cbloom"):
            tr.update(m=obj.number_bits, k=obj.number_hashes, est=obj.estimated_elements)
        elif kind == "cms":
            if obj.query_type != "min":
                return None
            tr.update(w=obj.width, d=obj.depth)
        elif kind in ("ebf", "rbf"):
            from probables import BloomFilter

            probe = BloomFilter(est_elements=obj.estimated_elements, false_positive_rate=obj.false_positive_rate, hash_function=obj.hash_function)
            tr.update(m=probe.number_bits, k=probe.number_hashes, est=obj.estimated_elements, qmax=getattr(obj, "max_queue_size", 1))
            tr["_probe"] = probe
        elif kind == "qf":
            if obj.quotient > 16:
                return None
            tr.update(q=obj.quotient, auto=obj.auto_expand)
        elif kind in ("cko", "ccko"):
            tr.update(m=obj.capacity, k=obj.bucket_size, auto=obj.auto_expand)
        if obj.elements_added != 0:
            return None
    except Exception:  # noqa
        return None
    _TR.append(tr)
    _BY[id(obj)] = tr
    tr["_obj"] = obj
    return tr


def _pos(tr, obj, key):
    kind = tr["kind"]
    if kind in ("bloom", "disk", "cbloom"):
        return [h % tr["m"] for h in obj.hashes(key)]
    if kind == "cms":
        return [(h % tr["w"]) + i * tr["w"] for i, h in enumerate(obj.hashes(key))]
    if kind in ("ebf", "rbf"):
        return [h % tr["m"] for h in tr["_probe"].hashes(key)]
    if kind == "qf":
        h = obj._hash_func(key, 0)
        return [h >> 16, h & 0xFFFF]
    # cuckoo: the fingerprint class
    h = obj._generate_fingerprint_info(key)[2]
    cl = tr.setdefault("_classes", {})
    return [cl.setdefault(h, len(cl) + 1)]


def _kidx(tr, obj, key):
    kk = key if isinstance(key, (str, bytes)) else repr(key)
    if kk not in tr["keys"]:
        tr["keys"][kk] = len(tr["pos"]) + 1
        tr["pos"].append(_pos(tr, obj, key))
    return tr["keys"][kk]


def _aux(tr, obj):
    a = {"ns": [], "q": 0, "lost": 0, "uniq": 0, "dump": 0, "lf": 0}
    kind = tr["kind"]
    if kind in ("ebf", "rbf"):
        a["ns"] = [b.elements_added for b in obj._blooms]
    elif kind == "qf":
        a["q"] = obj.quotient
        a["lf"] = int(round(obj.max_load_factor * 10000))
    elif kind == "ccko":
        a["uniq"] = obj.unique_elements
    return a


def _log(obj, op, key=None, a=1, ret=0, probes=None, extra_a=0):
    tr = _BY.get(id(obj))
    if tr is None or not tr["open"] or tr.get("_obj") is not obj:
        return
    try:
        if abs(int(a or 0)) > 10**8 or abs(int(obj.elements_added)) > 10**9 or abs(int(ret or 0)) > 10**9:
            tr["open"] = False      # amounts beyond TLC's integers (the saturation tests): not traced here
            return
        ks = [[_kidx(tr, obj, key), a]] if key is not None else []
        ev = {"op": op, "ks": ks, "a": extra_a, "ret": int(ret or 0), "n": obj.elements_added, "probes": probes or [], "full": [], "aux": _aux(tr, obj)}
        tr["ev"].append(ev)
    except Exception:  # noqa
        tr["open"] = False


def _close(obj):
    tr = _BY.get(id(obj))
    if tr is not None:
        tr["open"] = False


def _wrap(cls, name, fn):
    orig = cls.__dict__.get(name)
    if orig is None:
        return

    def wrapper(self, *args, **kw):
        _DEPTH[0] += 1
        try:
            res = orig(self, *args, **kw)
        except Exception:
            _DEPTH[0] -= 1
            if _DEPTH[0] == 0:
                fn(self, args, kw, None, True)
            raise
        _DEPTH[0] -= 1
        if _DEPTH[0] == 0:
            fn(self, args, kw, res, False)
        return res

    wrapper.__name__ = name
    wrapper.__doc__ = getattr(orig, "__doc__", None)
    setattr(cls, name, wrapper)


def _wrap_classmethod(cls, name):
    """loaders (frombytes): objects built inside are not traced (they do not start empty)"""
    orig = cls.__dict__.get(name)
    if not isinstance(orig, classmethod):
        return
    f = orig.__func__

    def wrapper(c, *args, **kw):
        _DEPTH[0] += 1
        try:
            return f(c, *args, **kw)
        finally:
            _DEPTH[0] -= 1

    setattr(cls, name, classmethod(wrapper))


def pytest_configure(config):
    import probables as P

    def on_init(self, args, kw, res, raised):
        if not raised and id(self) not in _BY:
            loaded = any(kw.get(x) is not None for x in ("filepath", "hex_string"))
            if type(self).__name__ == "BloomFilterOnDisk":
                loaded = kw.get("est_elements") is None and (len(args) < 2 or args[1] is None)
            if not loaded:
                _start(self)

    def on_add(self, args, kw, res, raised):
        tr = _BY.get(id(self))
        if tr is None:
            return
        if raised:
            if tr["kind"] in ("cko", "ccko"):
                _log(self, "addfail", args[0] if args else kw.get("key"), 1)
            else:
                _close(self)
            return
        key = args[0] if args else kw.get("key")
        kind = tr["kind"]
        if kind in ("cbloom", "cms"):
            a = args[1] if len(args) > 1 else kw.get("num_els", 1)
            _log(self, "add", key, a, res)
        elif kind in ("ebf", "rbf"):
            force = args[1] if len(args) > 1 else kw.get("force", False)
            _log(self, "add", key, 1 if force else 0)
        else:
            _log(self, "add", key, 1)

    def on_remove(self, args, kw, res, raised):
        tr = _BY.get(id(self))
        if tr is None:
            return
        if raised:
            _close(self)
            return
        key = args[0] if args else kw.get("key")
        if tr["kind"] in ("cbloom", "cms"):
            a = args[1] if len(args) > 1 else kw.get("num_els", 1)
            _close(self)  # removals in the tests are not always legitimate (amount > outstanding): the clauses do not cover them
        else:
            _log(self, "rem", key, 1, res)

    def on_check(self, args, kw, res, raised):
        tr = _BY.get(id(self))
        if tr is None or raised or not tr["open"]:
            return
        key = args[0] if args else kw.get("key")
        try:
            k = _kidx(tr, self, key)
            _log(self, "chk", None, probes=[[k, int(res)]])
        except Exception:  # noqa
            tr["open"] = False

    def closer(self, args, kw, res, raised):
        _close(self)

    def on_simple(op):
        def f(self, args, kw, res, raised):
            if raised:
                if not (op == "pop"):
                    _close(self)
                return
            _log(self, op)
        return f

    classes = [P.BloomFilter, P.BloomFilterOnDisk, P.CountingBloomFilter, P.CountMinSketch, P.HeavyHitters, P.StreamThreshold, P.ExpandingBloomFilter,
               P.RotatingBloomFilter, P.QuotientFilter, P.CuckooFilter, P.CountingCuckooFilter]
    for cls in classes:
        _wrap(cls, "__init__", on_init)
        _wrap(cls, "add", on_add)
        _wrap(cls, "remove", on_remove)
        _wrap(cls, "check", on_check)
        for name in ("add_alt", "remove_alt", "join", "merge", "_load", "_load_hex", "_parse_bytes", "_parse_blooms", "expand"):
            _wrap(cls, name, closer)
        _wrap_classmethod(cls, "frombytes")
        _wrap(cls, "clear", on_simple("clear"))
        _wrap(cls, "push", on_simple("push"))
        _wrap(cls, "pop", on_simple("pop"))
    def on_resize(self, args, kw, res, raised):
        tr = _BY.get(id(self))
        if tr is None or raised:          # the argument checks come before any change: a refused resize is not an event
            return
        q = args[0] if args else kw.get("quotient")
        if q is None:                     # "double": the quotient before the call (every change so far was logged) plus one
            q = (tr["ev"][-1]["aux"]["q"] if tr["ev"] else tr["q"]) + 1
        _log(self, "rsz", extra_a=int(q))

    _wrap(P.QuotientFilter, "resize", on_resize)
    prop = P.QuotientFilter.__dict__.get("max_load_factor")
    if isinstance(prop, property) and prop.fset is not None:
        def lf_setter(self, val, _f=prop.fset):
            _f(self, val)
            v = float(val) * 10000
            if abs(v - round(v)) < 1e-6 and 0 < v <= 10000:
                _log(self, "lf", extra_a=int(round(v)))
            else:
                _close(self)

        P.QuotientFilter.max_load_factor = property(prop.fget, lf_setter)
    for cls in (P.BloomFilter, P.CountingBloomFilter):
        prop = cls.__dict__.get("elements_added")
        if isinstance(prop, property) and prop.fset is not None:
            fset = prop.fset

            def setter(self, val, _f=fset):
                _close(self)
                _f(self, val)

            setattr(cls, "elements_added", property(prop.fget, setter))


def pytest_sessionfinish(session, exitstatus):
    out = os.environ.get("VERIF_REC_OUT")
    if not out:
        return
    keep = []
    for tr in _TR:
        if len(tr["ev"]) >= 2 and tr["pos"]:
            keep.append({k: tr[k] for k in ("id", "kind", "m", "k", "w", "d", "est", "qmax", "q", "auto", "pos", "ev", "cls", "test")})
    with open(out, "w") as fh:
        json.dump(keep, fh)
