"""Generates /verif/MANIFEST.json from the table below:  /venv/bin/python -m vlib.manifest"""
import json
from pathlib import Path

VERIF = Path(__file__).resolve().parent.parent

BASELINE = "cd /repo && /venv/bin/python -m pytest -ra -q -p no:cacheprovider --timeout=900 --continue-on-collection-errors"

TECH = "explicit TLA+ specification model-checked by TLC; TLC-generated transitions replayed into the real classes (spec->code conformance)"

CHECKS = {
    "C04": dict(
        category="model_checking",
        text="spec/QuotientFilter.tla models the filter as a set of hashes with its quotient size, counter and auto_expand flag, plus the canonical "
        "slot table and transcriptions of the look-up and hashes() algorithms; TLC checks exact membership, exact decoding, counter = |set| and the "
        "set semantics of add/remove/resize/merge on every reachable state of universes built for runs, clusters, shifted runs, wrap-around and the "
        "completely full table. Every transition TLC generates is then executed against the real QuotientFilter and membership of every universe hash, "
        "get_hashes(), elements_added and termination are compared with the model after each call; the four internal arrays are compared with the "
        "model's table for drift.",
        note="Exhaustive within the stated universes (12-16 hashes, quotient sizes 3..6, and small universes at quotient sizes 16 and 24 for the other "
        "remainder typecodes); spec/TraceScale.tla adds long histories through the string API (default 32-bit FNV-1a) with automatic and manual resizes. "
        "Trusted: TLC, the Python harness.",
        design="6 (C04)",
        technique=TECH,
    ),
    "C01": dict(
        category="model_checking",
        text="spec/BloomFamily.tla: two filters over a table-driven hash function (the hash table is model input, TLC takes it from a set of collision "
        "shapes and seeded tables; exhaustive for the smallest geometry in the thorough tier); invariant NoFalseNegative and action property Monotone checked "
        "by TLC; every generated transition is executed on BloomFilter / BloomFilterOnDisk and every key added since the last clear must be reported present "
        "after every step, after union, and after every export/load channel and on-disk reopen.",
        note="Exhaustive part: geometries up to 17 bits / 5 hashes, 3 keys, depth 4-5 plus TLC simulation schedules to depth 14; the five hashing strategies "
        "(default FNV-1a, md5, sha256, decorator-built, hand-written) run on real text/bytes keys with the table TLC gets obtained by calling the strategy once "
        "per key; spec/TraceScale.tla validates long histories on 100-5000 bit filters (in-memory, on-disk with reopen, expanding) with reloads. Trusted: TLC, the harness.",
        design="6 (C01)", technique=TECH),
    "C02": dict(
        category="model_checking",
        text="spec/CountMin.tla: cells, total, and the history oracle tru[k]; invariants Bounds (tru <= est <= total, exact when isolated), TotalMeaning and "
        "action property RetIsCheck checked by TLC for widths/depths up to 3x3 and every generated transition executed on CountMinSketch (also HeavyHitters and "
        "StreamThreshold in min mode), all keys queried after every step.",
        note="Unsaturated, legitimate histories only (as the property states); table-driven hash functions and the real strategies on small widths so that "
        "collisions are the norm, plus TraceScale.tla traces on widths 50..1000 with the default hash. Thorough tier, extra design-level evidence: "
        "spec/CountMinInd.tla, an inductive invariant discharged by Apalache (unbounded history length and amounts, every hash table of a 2x3 sketch).",
        design="6 (C02)", technique=TECH),
    "C03": dict(
        category="model_checking",
        text="spec/Cuckoo.tla returns, for every insertion, the SET of outcomes over all resolutions of the random bucket/slot choices (and of all "
        "re-insertions of an expansion); TLC enumerates every alternate-bucket table and every choice sequence and checks Kept / NoPhantom / FailedKeeps; "
        "the harness scripts `random` inside the cuckoo modules so the real filter follows each emitted choice sequence, then compares presence of every key "
        "that is owed, before/after a failed add, and the whole table (drift).",
        note="Capacities up to 8, bucket sizes up to 3, max_swaps up to 3, up to 7 fingerprints; the schedule of random draws is the code's own order of "
        "calls to random.choice / random.randint (a change of that order, or another way of drawing, shows up as drift, not as a verdict: the scripted module offers the whole random interface and the history oracle is advanced from whether the code's own calls returned normally).",
        design="6 (C03)", technique=TECH),
    "C05": dict(
        category="model_checking",
        text="In every distinct state reached by the S2C runs of the Bloom-family, count-min-family and cuckoo engines the real object is exported through "
        "every channel it offers (bytes, file path, file object, hex, on-disk reopen) and loaded back; queries of every universe key, geometry, counters, "
        "class, re-exported bytes and agreement between channels are compared.",
        note="The states are the reachable states of the small model instances; expanding/rotating filters are covered by their own engine.",
        design="6 (C05)", technique=TECH),
    "C06": dict(
        category="model_checking",
        text="spec/Layout.tla is an independent writer and reader of every export format over byte sequences, spec/FNV1a.tla the documented hashing rule "
        "in byte limbs; spec/TraceLayout.tla re-executes histories recorded from the real structures running the library's default hash and, after every "
        "step, compares the exported bytes with the reference writer's bytes (Bloom, counting Bloom, count-min, expanding, rotating, cuckoo, counting "
        "cuckoo; hex form; the C header read back as declarations + array initialiser) and the library's answer for every key with the reference reader's answer computed from the exported bytes alone (Bloom, "
        "counting Bloom, count-min min/mean/mean-min). TLC prints one verdict per trace.",
        note="TLC is used as an executable reference here (encode/decode fidelity is at the edge of the technique): structures up to ~80 cells, keys up to 8 "
        "bytes; Bloom geometry from an independent 50-digit evaluation of the documented formula; cuckoo exports (evictions, growth and rejected additions included) are read back and judged as well-formed tables holding exactly the history's fingerprints, each in one of its two buckets - where a fingerprint sits is the library's choice; histories that reach a storage limit are judged on the cells read from the exported bytes (TraceSat.tla, limb arithmetic); the float "
        "rate is compared as 4 raw bytes; mean-min compared only where no intermediate is negative (floor vs C truncation).",
        design="6 (C06)", technique="explicit TLA+ reference writer/reader executed by TLC over traces recorded from the implementation (trace validation)"),
    "C07": dict(
        category="model_checking",
        text="spec/Sizing.tla decides the property's inequalities exactly: every float input is the rational num/2^e (float.as_integer_ratio) and "
        "2^(e+1) <= num*width, 2^e <= (2^e-num)*2^depth, bs*2^(e+1) <= num*2^fbits are evaluated in arbitrary-precision limb arithmetic by TLC on the "
        "geometry the real constructors report, for powers of two 2^-1..2^-30 and their neighbours 1-2 ulps away, a dyadic grid and seeded random floats; "
        "Bloom hashes-vs-bits is cross-checked by TLC with a rational enclosure of ln 2, and bits/hashes and the 7% allowance are compared with an independent "
        "50-digit evaluation; determinism and geometry after every load channel are compared.",
        note="The Bloom bit count and the theoretical rate involve ln/exp, which TLC cannot evaluate: those two clauses are decided by the harness's "
        "independent high-precision arithmetic, not by the model (stated in DESIGN section 8).",
        design="6 (C07), 8", technique="TLA+ specification of the sizing inequalities in exact limb arithmetic, evaluated by TLC on configurations recorded from the implementation"),
    "C08": dict(
        category="model_checking",
        text="Counting Bloom: BloomFamily.tla with Counting=TRUE (invariants NoFalseNegative with outstanding counts, RemoveUndoesAdd); every transition "
        "executed on CountingBloomFilter incl. coinciding positions, with the undo clause evaluated on exported bytes. Counting cuckoo: Cuckoo.tla with "
        "Counting=TRUE (CountExact), every eviction/expansion path forced through the real class.",
        note="Below saturation, legitimate removals only (as stated). Thorough tier, extra design-level evidence: spec/CountingBloomInd.tla, an inductive "
        "invariant discharged by Apalache (unbounded history length and amounts, every hash table of a 4-cell filter with 2 probes per key).", design="6 (C08)", technique=TECH),
    "C09": dict(
        category="model_checking",
        text="spec/ExpandingBloom.tla: queue of sub-filters, growth test before each effective insertion, history oracles (calls, effective insertions, "
        "explicit pushes); invariants SubCap, Growth (expansions = max(0, ceil(I/est)-1) on push-free histories), TotalIsCalls and action property "
        "DupInsertsNothing checked by TLC; every generated transition (add new/duplicate/forced, push, export+load through each channel and continuing "
        "afterwards) executed on ExpandingBloomFilter with clauses stated over the code's own pre-add answers and its exported bytes.",
        note="est_elements 1..3 with the real geometries these give, 4 keys, table-driven hash functions (false positives are frequent). Thorough tier, extra "
        "design-level evidence: spec/ExpandingProof.tla, a TLAPS proof of the capacity rule (no filter above est_elements, growth only when the newest is full) "
        "for arbitrary est_elements and unbounded histories.",
        design="6 (C09)", technique=TECH),
    "C10": dict(
        category="model_checking",
        text="spec/ExpandingBloom.tla with Rotating=TRUE: invariants QueueBound, SubCap, Window (a key inserted while reported absent stays present while at "
        "most (qmax-1)*est further effective insertions happened and no explicit push/pop), action properties PresentAfterAdd, PopRefused; every generated "
        "transition executed on RotatingBloomFilter, the window clause evaluated for every key of the history from the code's own answers.",
        note="max_queue_size 1..3, est_elements 1..3; the window clause is read in its weakest form (strictly fewer than (qmax-1)*est further insertions).",
        design="6 (C10)", technique=TECH),
    "C11": dict(
        category="fault_enumeration",
        text="spec/OnDiskBloom.tla splits add into its internal steps (bit stores, in-memory increment, flush of the rewritten count, return) with a Crash "
        "action enabled in every intermediate state; TLC checks ContainsCompleted, NoForeignBits, CountCurrent, CountNotAhead in EVERY state. Binding: every "
        "operation-level history TLC generates (incl. adds killed in each intermediate file state, close/reopen cycles, export, clear) is replayed on the "
        "real class from varying working directories and relative/absolute paths; the operation of each emitted transition runs under sys.settrace and "
        "the backing file is read through a second descriptor at every executed line/return inside probables/ (= what a SIGKILL there leaves); every "
        "snapshot is judged against the history oracle and every distinct one is recovered by a real reopen+close; the sequence of distinct file states "
        "must be the model's sequence of intermediate states (drift).",
        note="Process kill only (not power loss); line granularity plus the equality in-process snapshot = file after a real fork+SIGKILL, which is "
        "checked on a sample every run; clear() is not crash-enumerated (the property quantifies over add/close/export).",
        design="6 (C11), 3.5", technique="explicit TLA+ specification with Crash actions model-checked by TLC; crash points of the real code enumerated by "
        "line-level tracing of TLC-generated histories and validated against the model's intermediate states"),
    "C12": dict(
        category="model_checking",
        text="Union of every pair of reachable operand states (plain, on-disk in either position, counting) and count-min join are derived in the model "
        "(UnionCells, JoinS; invariants UnionSuperset, UnionSumLower, JoinIsSum) and compared cell by cell with what the real classes compute; for "
        "addition-only streams the result is also compared with a real single structure fed both streams.",
        note="Unsaturated operands; same-geometry same-hash pairs.", design="6 (C12)", technique=TECH),
    "C13": dict(
        category="model_checking",
        text="Intersection cells and the Jaccard index <<|both|,|either|>> are derived in BloomFamily.tla for every pair of reachable operand states "
        "(invariants InterBoth, JaccardOK) and compared with the real results incl. symmetry, range, identical operands and operand immutability.",
        note="Compatible pairs from the model runs; the incompatibility rules are checked by the compat routine over generated configuration pairs.",
        design="6 (C13)", technique=TECH),
    "C14": dict(
        category="model_checking",
        text="Every model has the counter as a state variable with its documented meaning as an invariant against history oracles (CounterMeaning, "
        "TotalMeaning, CounterOK, CountIsSize); the clause C14.count.<structure> is evaluated after every step of every S2C run of every structure, incl. "
        "reload, removal, expansion and join paths; the two Bloom statistics are compared with an independent 50-digit evaluation away from rounding boundaries.",
        note="Statistics clause: TLC has no reals; the harness evaluates the closed forms independently (see DESIGN section 8).",
        design="6 (C14)", technique=TECH),
    "C15": dict(
        category="model_checking",
        text="Invariants BucketSize, Placement, NoDup, CountPos, CapChain of spec/Cuckoo.tla checked by TLC on every reachable table; the same predicates are "
        "evaluated on the public buckets of the real filter after every operation of every emitted transition and on tables loaded from an export.",
        note="Same scope as C03.", design="6 (C15)", technique=TECH),
    "C16": dict(
        category="model_checking",
        text="BloomFamily.tla / CountMin.tla with tiny limits (cells +-3, totals +-5) so that TLC walks across the limits exhaustively (TypeOK, "
        "SaturatedStays); the same tiny limits are patched into the limit constants the counting modules read, and every transition is executed on the "
        "real classes: no exception, returned value, every cell and total equal to the model, export/load, union/intersection/join.",
        note="Two complementary parts: (1) the exhaustive tiny-limit graph needs the limits patched into the module attributes (UINT32_T_MAX, INT32_T_MAX, ...) "
        "and is blind to a wrong constant; (2) spec/TraceSat.tla validates histories with amounts around 2^31, 2^32, 2^63, 2^64 recorded with the real limits in "
        "arbitrary-precision limb arithmetic. Counting-Bloom removals are legitimate ones (as in C08).", design="6 (C16), 0.2", technique=TECH),
    "C17": dict(
        category="model_checking",
        text="CountMin.tla models the tracked tables as insertion-ordered dictionaries incl. the cached (stale) smallest value of HeavyHitters; invariants "
        "HHConsistent, STConsistent, STNeverMissing checked by TLC for colliding widths/depths; on the real classes the public tables are compared with "
        "the values the object itself returned (purely observational clauses).",
        note="Key universe of 3-4 keys, up to 3 hitters, thresholds 1..3, depth up to 7.", design="6 (C17)", technique=TECH),
    "C18": dict(
        category="model_checking",
        text="spec/FNV1a.tla is a reference FNV-1a (64/32 bit, seed advancing the offset basis by 31) in byte limbs, self-checked against published test "
        "vectors; spec/HashRef.tla makes TLC enumerate every key of <= 1 byte (quick) / <= 2 bytes (thorough) plus random longer keys x seeds incl. 2^32, "
        "2^64/31, 2^64-1 and emit the reference values, which fnv_1a, fnv_1a_32, default_fnv_1a (bytes and text keys) must reproduce; spec/HashMemo.tla "
        "validates recorded call sequences of all shipped and decorator-built strategies: exactly depth values, unsigned 64-bit range, purity and prefix "
        "stability through a memo keyed on the key's UTF-8 bytes (which also decides text = bytes), reference values for the default strategy.",
        note="md5/sha256 digest values are not re-implemented (not claimed by the property); TLC as executable reference, ~1000 hashes/s.",
        design="6 (C18)", technique="explicit TLA+ reference implementation evaluated by TLC (spec->code) plus TLC trace validation of recorded calls (code->spec)"),
    "C19": dict(
        category="model_checking",
        text="In every source state of every S2C run the harness executes the battery of read-only calls (queries of present and absent keys, statistics, "
        "str, hashes, every export channel, being the non-receiver of union/intersection/jaccard/join/merge) and compares exported bytes, counters and "
        "tables before/after; clear() is compared with a freshly constructed object.",
        note="Reachable states of the small model instances.", design="6 (C19)", technique=TECH),
    "C20": dict(
        category="model_checking",
        text="spec/Bitarray.tla keeps the abstract list of n bits next to the packed byte representation (refinement invariant, frame action property); "
        "TLC enumerates all 2^n states x every operation with indices -2..n+1 and assignment values -1..2 for n up to 9 (quick) / 12 (thorough) and every "
        "generated transition is executed against probables.utilities.Bitarray; larger sizes (15..33) by TLC simulation schedules.",
        note="Exhaustive for the listed sizes only; integer indices and values only. Trusted: TLC, the Python harness.",
        design="6 (C20)",
        technique=TECH,
    ),
}

PENDING_REASON = "check under construction in this build stage (not yet registered); see DESIGN.md section 6"


SCALE_NOTE = (" In addition spec/TraceScale.tla validates histories recorded at realistic scale (structures whose arrays / tables cross the 4 KiB, 8 KiB, 64 KiB, "
              "1024-bucket and 65536-slot marks, thousands of real text/bytes keys with the library's own hash functions, batched additions, reloads, unions, growth) "
              "against a sparse abstract state; oracle-free clauses (round trips, read-only batteries, table invariants, file well-formedness) are evaluated there by the harness.")
REPOTESTS_NOTE = (" The repository's own 312 tests are also run once under a recording plugin (vlib/pytest_rec.py, in-memory wrappers, nothing in /repo is edited) and every "
                  "structure they drive through the public single-key API is validated by TLC against TraceScale.tla, the clauses being evaluated after every call.")
REPOTESTS_PROPS = {"C01", "C02", "C03", "C04", "C08", "C09", "C10", "C14"}
SCALE_PROPS = {"C01", "C02", "C03", "C04", "C05", "C07", "C08", "C09", "C10", "C11", "C12", "C13", "C14", "C15", "C17", "C19", "C20"}


def build():
    props = [json.loads(l)["id"] for l in open(VERIF / "properties.jsonl")]
    checks = []
    for pid in props:
        c = CHECKS.get(pid)
        if not c:
            continue
        checks.append(
            {
                "property_id": pid,
                "quick_cmd": f"./check {pid} --tier quick",
                "thorough_cmd": f"./check {pid} --tier thorough",
                "evidence_file": f"/verif/evidence/{pid}.json",
                "replay_cmd_template": "./check replay {path}",
                "engine": "tla-s2c",
                "level_claimed": {"category": c["category"], "text": c["text"], "design_ref": c["design"]},
                "level_note": c["note"] + (SCALE_NOTE if pid in SCALE_PROPS else "") + (REPOTESTS_NOTE if pid in REPOTESTS_PROPS else ""),
                "technique": c["technique"],
            }
        )
    m = {
        "version": 1,
        "setup_cmd": "true",
        "hooks": {
            "guard": "PYPROBABLES_VERIF",
            "enable": "no source hooks are needed: checks import probables from /repo's working tree; the harness scripts the module-level "
            "`random` of the cuckoo modules and uses sys.settrace for crash points",
            "baseline_off_cmd": BASELINE,
            "source_commits": [],
            "add_only": True,
        },
        "engines": [
            {
                "name": "tla-s2c",
                "path": "/verif/check",
                "serves_properties": sorted(CHECKS),
                "kind_free_text": "TLA+ specs in /verif/spec checked by TLC; ACTION_CONSTRAINT emits every generated transition as JSON; "
                "vlib/engines/*.py replay them into the real classes and evaluate property clauses; TLC trace specs validate recorded histories",
            }
        ],
        "checks": checks,
        "notes": "See DESIGN.md (section 0 = as built). Exit 0 = held on everything explored; exit 1 + VIOLATION line; exit 2 = machinery failure. "
        "Known findings: /verif/known_findings.json (17 entries 'fixed: ...' that suppress nothing, 1 open entry D25 under C05 printed as KNOWN-FINDING). "
        "./check selftest demonstrates the binding of the specifications to the code; seeded/ holds 260 independently produced breaking changes and what caught them; DESIGN 0.4b records the property-preserving (benign) changes the checks were run against.",
        "not_applicable": [{"property_id": p, "reason": PENDING_REASON} for p in props if p not in CHECKS],
    }
    (VERIF / "MANIFEST.json").write_text(json.dumps(m, indent=1))


if __name__ == "__main__":
    build()
    print("MANIFEST.json written")
