"""Generates /verif/MANIFEST.json from the table below:  /venv/bin/python -m vlib.manifest"""
import json
from pathlib import Path

VERIF = Path(__file__).resolve().parent.parent

BASELINE = "cd /repo && /venv/bin/python -m pytest -ra -q -p no:cacheprovider --timeout=900 --continue-on-collection-errors"

TECH = "explicit TLA+ specification model-checked by TLC; TLC-generated transitions replayed into the real classes (spec->code conformance)"

CHECKS = {
    "C04": dict(
        category="model_checking",
        text="spec/QuotientFilter.tla models the filter as a set of hashes with its quotient size, counter and auto_expand flag, plus the canonical "
        "slot table and transcriptions of the look-up and hashes() algorithms; TLC checks exact membership, exact decoding, counter = |set| and the "
        "set semantics of add/remove/resize/merge on every reachable state of universes built for runs, clusters, shifted runs, wrap-around and the "
        "completely full table. Every transition TLC generates is then executed against the real QuotientFilter and membership of every universe hash, "
        "get_hashes(), elements_added and termination are compared with the model after each call; the four internal arrays are compared with the "
        "model's table for drift.",
        note="Exhaustive only within the stated universes (12-16 hashes, quotient sizes 3..6); hashes enter through add_alt/remove_alt/check_alt; "
        "quotient sizes above 6 (other remainder array typecodes) are not enumerated. Trusted: TLC, the Python harness.",
        design="6 (C04)",
        technique=TECH,
    ),
    "C20": dict(
        category="model_checking",
        text="spec/Bitarray.tla keeps the abstract list of n bits next to the packed byte representation (refinement invariant, frame action property); "
        "TLC enumerates all 2^n states x every operation with indices -2..n+1 and assignment values -1..2 for n up to 9 (quick) / 12 (thorough) and every "
        "generated transition is executed against probables.utilities.Bitarray; larger sizes (15..33) by TLC simulation schedules.",
        note="Exhaustive for the listed sizes only; integer indices and values only. Trusted: TLC, the Python harness.",
        design="6 (C20)",
        technique=TECH,
    ),
}

PENDING_REASON = "check under construction in this build stage (not yet registered); see DESIGN.md section 6"


def build():
    props = [json.loads(l)["id"] for l in open(VERIF / "properties.jsonl")]
    checks = []
    for pid in props:
        c = CHECKS.get(pid)
        if not c:
            continue
        checks.append(
            {
                "property_id": pid,
                "quick_cmd": f"./check {pid} --tier quick",
                "thorough_cmd": f"./check {pid} --tier thorough",
                "evidence_file": f"/verif/evidence/{pid}.json",
                "replay_cmd_template": "./check replay {path}",
                "engine": "tla-s2c",
                "level_claimed": {"category": c["category"], "text": c["text"], "design_ref": c["design"]},
                "level_note": c["note"],
                "technique": c["technique"],
            }
        )
    m = {
        "version": 1,
        "setup_cmd": "true",
        "hooks": {
            "guard": "PYPROBABLES_VERIF",
            "enable": "no source hooks are needed: checks import probables from /repo's working tree; the harness scripts the module-level "
            "`random` of the cuckoo modules and uses sys.settrace for crash points",
            "baseline_off_cmd": BASELINE,
            "source_commits": [],
            "add_only": True,
        },
        "engines": [
            {
                "name": "tla-s2c",
                "path": "/verif/check",
                "serves_properties": sorted(CHECKS),
                "kind_free_text": "TLA+ specs in /verif/spec checked by TLC; ACTION_CONSTRAINT emits every generated transition as JSON; "
                "vlib/engines/*.py replay them into the real classes and evaluate property clauses; TLC trace specs validate recorded histories",
            }
        ],
        "checks": checks,
        "notes": "See DESIGN.md. Exit 0 = held on everything explored; exit 1 + VIOLATION line; exit 2 = machinery failure.",
        "not_applicable": [{"property_id": p, "reason": PENDING_REASON} for p in props if p not in CHECKS],
    }
    (VERIF / "MANIFEST.json").write_text(json.dumps(m, indent=1))


if __name__ == "__main__":
    build()
    print("MANIFEST.json written")
