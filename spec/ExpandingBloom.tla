--------------------------- MODULE ExpandingBloom ---------------------------
(* ExpandingBloomFilter (Rotating = FALSE) and RotatingBloomFilter (Rotating = TRUE).
   Properties C09, C10; C01, C05, C14, C19 ride.

   pos[k] = the K raw hash values of key k (input).  A sub-filter is [bits, n]: the set of cell indices set and
   the number of insertions it received.  subs is the queue of sub-filters, oldest first; total = elements_added.

   History oracles (never read by the operations):
     calls   number of add calls                eff      number of effective insertions (forced, or key absent)
     manual  an explicit push/pop happened      ins[k]   value of eff when k was last inserted while reported absent
     man[k]  an explicit push/pop happened since then
   Operations: <<"add",k,force>>  <<"push","",0>>  <<"pop","",0>> (rotating)  <<"rt",channel,0>> (export + load: identity) *)
EXTENDS Integers, Sequences, FiniteSets, TLC, Json

CONSTANTS Keys, M, K, Tables, Est, QMax, Rotating, Channels, MaxDepth, MaxSubs, MaxReloads, Queries

VARIABLES pos, subs, total, calls, eff, manual, ins, man, reloads, hist, last
vars == <<pos, subs, total, calls, eff, manual, ins, man, reloads, hist, last>>

PosSet(k) == {pos[k][i] % M : i \in 1..K}
NewSub == [bits |-> {}, n |-> 0]
InSub(s, k) == PosSet(k) \subseteq s.bits
Check(ss, k) == \E i \in 1..Len(ss) : InSub(ss[i], k)
Newest(ss) == ss[Len(ss)]

(* growth test that precedes an insertion *)
Grow(ss) ==
  IF ~Rotating THEN (IF Newest(ss).n >= Est THEN Append(ss, NewSub) ELSE ss)
  ELSE IF Newest(ss).n = Est
       THEN (IF Len(ss) < QMax THEN Append(ss, NewSub) ELSE Append(Tail(ss), NewSub))
       ELSE ss

Insert(ss, k) == [ss EXCEPT ![Len(ss)] = [bits |-> @.bits \cup PosSet(k), n |-> @.n + 1]]

PushQ(ss) == IF ~Rotating THEN Append(ss, NewSub)
             ELSE IF Len(ss) < QMax THEN Append(ss, NewSub) ELSE Append(Tail(ss), NewSub)

Ops == {<<"add", k, f>> : k \in Keys, f \in {0, 1}} \cup {<<"push", "", 0>>}
       \cup (IF Rotating THEN {<<"pop", "", 0>>} ELSE {}) \cup {<<"rt", c, 0>> : c \in Channels}
       \cup (IF Queries THEN {<<"chk", k, 0>> : k \in Keys} \cup {<<"exp", "", 0>>} ELSE {})
          \* queries as ACTIONS that change nothing (C19): a look-up, and an export WITHOUT reload (the same object lives on); they are
          \* part of the history (ViewH) because the code may keep state across them (a memo of the last miss, cached exported parts)

Init == /\ pos \in Tables
        /\ subs = <<NewSub>> /\ total = 0 /\ calls = 0 /\ eff = 0 /\ manual = FALSE
        /\ ins = [k \in Keys |-> 0] /\ man = [k \in Keys |-> FALSE] /\ reloads = 0
        /\ hist = <<>> /\ last = [o |-> <<"init", "", 0>>, err |-> FALSE, was |-> FALSE]

Do(o) ==
  /\ CASE o[1] = "add" ->
            LET k == o[2]  was == Check(subs, k)  effective == (o[3] = 1) \/ ~was IN
            /\ total' = total + 1 /\ calls' = calls + 1
            /\ subs' = IF effective THEN Insert(Grow(subs), k) ELSE subs
            /\ eff' = IF effective THEN eff + 1 ELSE eff
            /\ ins' = IF ~was THEN [ins EXCEPT ![k] = eff + 1] ELSE ins
            /\ man' = IF ~was THEN [man EXCEPT ![k] = FALSE] ELSE man
            /\ UNCHANGED manual
            /\ last' = [o |-> o, err |-> FALSE, was |-> was]
       [] o[1] = "push" ->
            /\ subs' = PushQ(subs) /\ manual' = TRUE /\ man' = [k \in Keys |-> TRUE]
            /\ UNCHANGED <<total, calls, eff, ins>>
            /\ last' = [o |-> o, err |-> FALSE, was |-> FALSE]
       [] o[1] = "pop" ->
            IF Len(subs) = 1
            THEN /\ UNCHANGED <<subs, total, calls, eff, manual, ins, man>>           \* refused
                 /\ last' = [o |-> o, err |-> TRUE, was |-> FALSE]
            ELSE /\ subs' = Tail(subs) /\ manual' = TRUE /\ man' = [k \in Keys |-> TRUE]
                 /\ UNCHANGED <<total, calls, eff, ins>>
                 /\ last' = [o |-> o, err |-> FALSE, was |-> FALSE]
       [] o[1] \in {"chk", "exp"} ->
            /\ UNCHANGED <<subs, total, calls, eff, manual, ins, man>>
            /\ last' = [o |-> o, err |-> FALSE, was |-> FALSE]
       [] o[1] = "rt" ->
            /\ reloads < MaxReloads
            /\ UNCHANGED <<subs, total, calls, eff, manual, ins, man>>
            /\ last' = [o |-> o, err |-> FALSE, was |-> FALSE]
  /\ hist' = Append(hist, o)
  /\ reloads' = IF o[1] = "rt" THEN reloads + 1 ELSE reloads      \* part of the state: histories continue on the restored filter
  /\ UNCHANGED pos

Next == \E o \in Ops : Do(o)
Spec == Init /\ [][Next]_vars
View == <<pos, subs, total, calls, eff, manual, ins, man, reloads>>
ViewH == <<pos, subs, total, calls, eff, manual, ins, man, reloads, hist>>      \* enumerate histories (see CountMin.tla)
Bound == Len(hist) <= MaxDepth /\ Len(subs) <= MaxSubs

-----------------------------------------------------------------------------
(* properties *)
SubCap == \A i \in 1..Len(subs) : subs[i].n <= Est                                   \* C09 / C10
CeilDiv(a, b) == (a + b - 1) \div b
Growth == (~Rotating /\ ~manual) =>                                                   \* C09
            Len(subs) - 1 = (IF eff = 0 THEN 0 ELSE CeilDiv(eff, Est) - 1)
TotalIsCalls == total = calls                                                         \* C09 / C14
QueueBound == Rotating => (Len(subs) >= 1 /\ Len(subs) <= QMax)                       \* C10
AtLeastOne == Len(subs) >= 1
Window == Rotating => \A k \in Keys :                                                 \* C10
            (ins[k] > 0 /\ ~man[k] /\ eff - ins[k] <= (QMax - 1) * Est) => Check(subs, k)
ExpandingKeeps == ~Rotating => \A k \in Keys : ins[k] > 0 => Check(subs, k)           \* C01: nothing is ever forgotten
PresentAfterAdd == [][ last'.o[1] = "add" => Check(subs', last'.o[2]) ]_vars          \* C10
DupInsertsNothing == [][ (last'.o[1] = "add" /\ last'.o[3] = 0 /\ last'.was) =>       \* C09
                           (subs' = subs /\ total' = total + 1) ]_vars
NoEarlyGrowth == [][ (last'.o[1] = "add" /\ Len(subs') > Len(subs)) => Newest(subs).n >= Est ]_vars   \* C09: an add grows only a full newest filter
                                                                                     \* (with or without explicit pushes in the history)
PopRefused == [][ (last'.o[1] = "pop" /\ Len(subs) = 1) => (last'.err /\ subs' = subs) ]_vars   \* C10

-----------------------------------------------------------------------------
SubView(s) == [bits |-> [p \in 1..M |-> IF (p - 1) \in s.bits THEN 1 ELSE 0], n |-> s.n]
Emit == PrintT(ToJson([pos |-> pos, h |-> hist, a |-> last'.o,
                       e |-> [subs |-> [i \in 1..Len(subs') |-> SubView(subs'[i])], total |-> total', eff |-> eff',
                              manual |-> manual', err |-> last'.err, was |-> last'.was,
                              chk |-> [k \in Keys |-> Check(subs', k)], ins |-> ins', man |-> man']]))
=============================================================================
