------------------------------- MODULE Sizing -------------------------------
(* C07: the geometry derived from a requested accuracy delivers it.  Every Python float is a dyadic rational
   num / 2^e (num < 2^53), so the inequalities of the property are statements about integers, decided here
   exactly in arbitrary precision: naturals are little-endian sequences of limbs in base 2^15.
     count-min : 2 / width <= error_rate             <=>  2^(e+1) <= num * width
                 1 - 2^-depth >= confidence          <=>  2^e <= (2^e - num) * 2^depth
     cuckoo    : 2 * bucket_size / 2^fbits <= rate   <=>  bucket_size * 2^(e+1) <= num * 2^fbits
     Bloom     : hashes >= 1, and hashes = round(ln2 * bits / n) within the enclosure
                 0.69314718 < ln 2 < 0.69314719:  | hashes*n - ln2*bits | <= n/2 (+ enclosure slack);
                 bits and hashes themselves are compared with an independent high-precision evaluation by the harness.
   Input: cases.json, a list of [id, kind, num, e, a, b, c] with num, a, b, c limb sequences.  One verdict per case. *)
EXTENDS Integers, Sequences, TLC, Json

B == 32768

RECURSIVE Strip(_)
Strip(a) == IF a = <<>> THEN <<>> ELSE IF a[Len(a)] = 0 THEN Strip(SubSeq(a, 1, Len(a) - 1)) ELSE a

RECURSIVE CmpFrom(_, _, _)
CmpFrom(a, b, i) == IF i = 0 THEN 0 ELSE IF a[i] < b[i] THEN -1 ELSE IF a[i] > b[i] THEN 1 ELSE CmpFrom(a, b, i - 1)
Cmp(x, y) == LET a == Strip(x)  b == Strip(y) IN
             IF Len(a) < Len(b) THEN -1 ELSE IF Len(a) > Len(b) THEN 1 ELSE CmpFrom(a, b, Len(a))
Leq(x, y) == Cmp(x, y) <= 0

Limb(a, i) == IF i <= Len(a) THEN a[i] ELSE 0
RECURSIVE AddC(_, _, _, _, _)
AddC(a, b, i, c, acc) == IF i > Len(a) /\ i > Len(b) THEN (IF c = 0 THEN acc ELSE Append(acc, c))
                         ELSE LET s == Limb(a, i) + Limb(b, i) + c IN AddC(a, b, i + 1, s \div B, Append(acc, s % B))
Add(a, b) == AddC(a, b, 1, 0, <<>>)

RECURSIVE SubC(_, _, _, _, _)
SubC(a, b, i, br, acc) == IF i > Len(a) THEN acc           \* requires a >= b
                          ELSE LET s == a[i] - Limb(b, i) - br IN
                               IF s < 0 THEN SubC(a, b, i + 1, 1, Append(acc, s + B)) ELSE SubC(a, b, i + 1, 0, Append(acc, s))
Sub(a, b) == SubC(a, b, 1, 0, <<>>)

RECURSIVE MulSC(_, _, _, _, _)
MulSC(a, s, i, c, acc) == IF i > Len(a) THEN (IF c = 0 THEN acc ELSE Append(acc, c))
                          ELSE LET p == a[i] * s + c IN MulSC(a, s, i + 1, p \div B, Append(acc, p % B))
MulSmall(a, s) == MulSC(a, s, 1, 0, <<>>)                  \* 0 <= s < 2^15

ShiftLimbs(a, n) == [i \in 1..(Len(a) + n) |-> IF i <= n THEN 0 ELSE a[i - n]]
RECURSIVE MulFrom(_, _, _)
MulFrom(a, b, i) == IF i > Len(b) THEN <<>> ELSE Add(ShiftLimbs(MulSmall(a, b[i]), i - 1), MulFrom(a, b, i + 1))
Mul(a, b) == MulFrom(a, b, 1)

RECURSIVE P2(_)
P2(k) == IF k = 0 THEN 1 ELSE 2 * P2(k - 1)
Pow2L(x) == ShiftLimbs(<<P2(x % 15)>>, x \div 15)           \* 2^x
Small(n) == IF n < B THEN <<n>> ELSE <<n % B, (n \div B) % B, n \div (B * B)>>   \* n < 2^31

-----------------------------------------------------------------------------
WidthOK(num, e, width) == Leq(Pow2L(e + 1), Mul(num, width))
DepthOK(num, e, depth) == Leq(num, Pow2L(e)) /\ Leq(Pow2L(e), Mul(Sub(Pow2L(e), num), Pow2L(depth)))
FingerOK(num, e, bs, fbits) == Leq(MulSmall(Pow2L(e + 1), bs), Mul(num, Pow2L(fbits)))

(* Bloom: k = round(ln2 * m / n)  =>  2*|k*n*10^8 - L*m| <= n*10^8 + 2*m   for L in {69314718, 69314719} *)
Ln2Lo == Small(69314718)
Ln2Hi == Small(69314719)
E8 == Small(100000000)
AbsDiffLeq(x, y, bound) == IF Leq(x, y) THEN Leq(Sub(y, x), bound) ELSE Leq(Sub(x, y), bound)
HashesOK(n, m, k) ==
  LET kn == Mul(Mul(k, n), E8)
      bound == Add(Mul(n, E8), MulSmall(m, 2))
  IN /\ Cmp(k, <<0>>) > 0
     /\ \/ AbsDiffLeq(MulSmall(kn, 2), MulSmall(Mul(Ln2Lo, m), 2), bound)
        \/ AbsDiffLeq(MulSmall(kn, 2), MulSmall(Mul(Ln2Hi, m), 2), bound)

Cases == JsonDeserialize("cases.json")
VARIABLES i
Verdict(c) ==
  CASE c.kind = "cms" -> (IF WidthOK(c.num, c.e, c.a) THEN {} ELSE {"C07.cms_width"})
                          \cup (IF DepthOK(c.num2, c.e2, c.b) THEN {} ELSE {"C07.cms_depth"})
    [] c.kind = "cuckoo" -> (IF FingerOK(c.num, c.e, c.a, c.b) THEN {} ELSE {"C07.cuckoo_fingerprint"})
    [] c.kind = "bloom" -> (IF HashesOK(c.num, c.a, c.c) THEN {} ELSE {"C07.bloom_hashes"})
Init == i = 1
Next == /\ i <= Len(Cases)
        /\ PrintT(ToJson([verdict |-> Cases[i].id, fails |-> Verdict(Cases[i])]))
        /\ i' = i + 1
Spec == Init /\ [][Next]_i

(* self-check of the limb arithmetic on known identities *)
LimbSanity == /\ Strip(Mul(Small(123456789), Small(987654321))) = <<21381, 30718, 17491, 3465>>
              /\ Sub(Pow2L(64), Small(1)) = <<32767, 32767, 32767, 32767, 15>>
              /\ Cmp(Pow2L(45), Mul(Pow2L(30), Pow2L(15))) = 0
              /\ Add(<<32767, 32767>>, <<1>>) = <<0, 0, 1>>
=============================================================================
