------------------------------- MODULE Sizing -------------------------------
(* C07: the geometry derived from a requested accuracy delivers it.  Every Python float is a dyadic rational
   num / 2^e (num < 2^53), so the inequalities of the property are statements about integers, decided here
   exactly in arbitrary precision: naturals are little-endian sequences of limbs in base 2^15.
     count-min : 2 / width <= error_rate             <=>  2^(e+1) <= num * width
                 1 - 2^-depth >= confidence          <=>  2^e <= (2^e - num) * 2^depth
     cuckoo    : 2 * bucket_size / 2^fbits <= rate   <=>  bucket_size * 2^(e+1) <= num * 2^fbits
     Bloom     : hashes >= 1, and hashes = round(ln2 * bits / n) within the enclosure
                 0.69314718 < ln 2 < 0.69314719:  | hashes*n - ln2*bits | <= n/2 (+ enclosure slack);
                 bits and hashes themselves are compared with an independent high-precision evaluation by the harness.
   Input: cases.json, a list of [id, kind, num, e, a, b, c] with num, a, b, c limb sequences.  One verdict per case. *)
EXTENDS Limbs, TLC, Json

-----------------------------------------------------------------------------
WidthOK(num, e, width) == Leq(Pow2L(e + 1), Mul(num, width))
DepthOK(num, e, depth) == Leq(num, Pow2L(e)) /\ Leq(Pow2L(e), Mul(Sub(Pow2L(e), num), Pow2L(depth)))
FingerOK(num, e, bs, fbits) == Leq(MulSmall(Pow2L(e + 1), bs), Mul(num, Pow2L(fbits)))

(* Bloom: k = round(ln2 * m / n)  =>  2*|k*n*10^8 - L*m| <= n*10^8 + 2*m   for L in {69314718, 69314719} *)
Ln2Lo == Small(69314718)
Ln2Hi == Small(69314719)
E8 == Small(100000000)
AbsDiffLeq(x, y, bound) == IF Leq(x, y) THEN Leq(Sub(y, x), bound) ELSE Leq(Sub(x, y), bound)
HashesOK(n, m, k) ==
  LET kn == Mul(Mul(k, n), E8)
      bound == Add(Mul(n, E8), MulSmall(m, 2))
  IN /\ Cmp(k, <<0>>) > 0
     /\ \/ AbsDiffLeq(MulSmall(kn, 2), MulSmall(Mul(Ln2Lo, m), 2), bound)
        \/ AbsDiffLeq(MulSmall(kn, 2), MulSmall(Mul(Ln2Hi, m), 2), bound)

Cases == JsonDeserialize("cases.json")
VARIABLES i
Verdict(c) ==
  CASE c.kind = "cms" -> (IF WidthOK(c.num, c.e, c.a) THEN {} ELSE {"C07.cms_width"})
                          \cup (IF DepthOK(c.num2, c.e2, c.b) THEN {} ELSE {"C07.cms_depth"})
    [] c.kind = "cuckoo" -> (IF FingerOK(c.num, c.e, c.a, c.b) THEN {} ELSE {"C07.cuckoo_fingerprint"})
    [] c.kind = "bloom" -> (IF HashesOK(c.num, c.a, c.c) THEN {} ELSE {"C07.bloom_hashes"})
Init == i = 1
Next == /\ i <= Len(Cases)
        /\ PrintT(ToJson([verdict |-> Cases[i].id, fails |-> Verdict(Cases[i])]))
        /\ i' = i + 1
Spec == Init /\ [][Next]_i

(* self-check of the limb arithmetic on known identities *)
LimbSanity == /\ Strip(Mul(Small(123456789), Small(987654321))) = <<21381, 30718, 17491, 3465>>
              /\ Sub(Pow2L(64), Small(1)) = <<32767, 32767, 32767, 32767, 15>>
              /\ Cmp(Pow2L(45), Mul(Pow2L(30), Pow2L(15))) = 0
              /\ Add(<<32767, 32767>>, <<1>>) = <<0, 0, 1>>
=============================================================================
