----------------------------- MODULE OnDiskBloom -----------------------------
(* BloomFilterOnDisk: the backing file under process kill (property C11; C01/C05/C14/C19 ride).

   The file is [fbits, fcount] (bit positions set in the mapped array, element count in the footer; the
   estimated-elements and rate fields are never written after creation).  The object keeps ocount in memory.
   An add is NOT atomic.  Its steps, in the order the implementation performs them:
        AddStart(k) ; SetBit x K (mapped stores, visible in the file at once) ; IncMem (memory only) ;
        FlushCount (the rewritten count reaches the file) ; AddEnd (the call returns)
   Crash may happen in any of these intermediate states; then only the file survives and Reopen builds a new
   object from it.  The add is *committed* by FlushCount: bits first, count last.

   History oracles: committed (keys whose add completed since the last clear), done (number of completed adds),
   started (keys whose add was at least begun), aborted (some add was cut short by a crash).
   hist holds the operation-level history that the harness replays:
       <<"add",k,0>>  <<"crashadd",k,i>> (killed in the i-th intermediate file state)  <<"close","",0>>
       <<"reopen","",0>>  <<"export","",0>>  <<"clear","",0>>                                           *)
EXTENDS Integers, Sequences, FiniteSets, TLC, Json

CONSTANTS Keys, M, K, Tables, MaxAdds, MaxCycles, MaxDepth

VARIABLES pos, fbits, fcount, ocount, pc, inflight, j, prebits, committed, started, done, aborted, cycles, hist, last
vars == <<pos, fbits, fcount, ocount, pc, inflight, j, prebits, committed, started, done, aborted, cycles, hist, last>>

None == "-"
P(k, i) == pos[k][i] % M
PosSet(k) == {P(k, i) : i \in 1..K}
Bits(S) == UNION {PosSet(k) : k \in S}

(* the file states an add of k passes through, in order, starting from file <<b, c>> *)
Mids(b, c, k) == [i \in 1..(K + 3) |->
                    IF i <= K + 1 THEN <<b \cup {P(k, x) : x \in 1..(i - 1)}, c>>
                    ELSE IF i = K + 2 THEN <<b \cup PosSet(k), c>>          \* memory incremented, count not flushed
                    ELSE <<b \cup PosSet(k), c + 1>>]                        \* count flushed

Init == /\ pos \in Tables
        /\ fbits = {} /\ fcount = 0 /\ ocount = 0 /\ pc = "idle" /\ inflight = None /\ j = 0 /\ prebits = {}
        /\ committed = {} /\ started = {} /\ done = 0 /\ aborted = FALSE /\ cycles = 0
        /\ hist = <<>> /\ last = <<"init", "", 0>>

Silent == UNCHANGED <<pos, hist>> /\ last' = <<"tau", "", 0>>

AddStart(k) == /\ pc = "idle" /\ done < MaxAdds
               /\ inflight' = k /\ j' = 0 /\ pc' = "bits" /\ started' = started \cup {k} /\ prebits' = fbits
               /\ UNCHANGED <<fbits, fcount, ocount, committed, done, aborted, cycles>> /\ Silent
SetBit == /\ pc = "bits" /\ j < K
          /\ fbits' = fbits \cup {P(inflight, j + 1)} /\ j' = j + 1
          /\ UNCHANGED <<prebits, fcount, ocount, pc, inflight, committed, started, done, aborted, cycles>> /\ Silent
IncMem == /\ pc = "bits" /\ j = K
          /\ ocount' = ocount + 1 /\ pc' = "upd"
          /\ UNCHANGED <<prebits, fbits, fcount, inflight, j, committed, started, done, aborted, cycles>> /\ Silent
FlushCount == /\ pc = "upd"
              /\ fcount' = ocount /\ pc' = "ret"
              /\ UNCHANGED <<prebits, fbits, ocount, inflight, j, committed, started, done, aborted, cycles>> /\ Silent
AddEnd == /\ pc = "ret"
          /\ committed' = committed \cup {inflight} /\ done' = done + 1 /\ inflight' = None /\ pc' = "idle" /\ j' = 0
          /\ hist' = Append(hist, <<"add", inflight, 0>>) /\ last' = <<"add", inflight, 0>>
          /\ UNCHANGED <<prebits, pos, fbits, fcount, ocount, started, aborted, cycles>>

CrashIdx == IF pc = "bits" THEN j + 1 ELSE IF pc = "upd" THEN K + 2 ELSE K + 3
Crash == /\ pc \in {"bits", "upd", "ret"} /\ cycles < MaxCycles
         /\ pc' = "dead" /\ inflight' = None /\ j' = 0 /\ cycles' = cycles + 1
         /\ IF pc = "ret"                                      \* the count reached the file: the add took effect
            THEN committed' = committed \cup {inflight} /\ done' = done + 1 /\ aborted' = aborted
            ELSE UNCHANGED <<committed, done>> /\ aborted' = TRUE
         /\ hist' = Append(hist, <<"crashadd", inflight, CrashIdx>>) /\ last' = <<"crashadd", inflight, CrashIdx>>
         /\ UNCHANGED <<pos, fbits, fcount, ocount, started, prebits>>
Reopen == /\ pc \in {"dead", "closed"}
          /\ ocount' = fcount /\ pc' = "idle"
          /\ hist' = Append(hist, <<"reopen", "", 0>>) /\ last' = <<"reopen", "", 0>>
          /\ UNCHANGED <<prebits, pos, fbits, fcount, inflight, j, committed, started, done, aborted, cycles>>
Close == /\ pc = "idle" /\ cycles < MaxCycles
         /\ fcount' = ocount /\ pc' = "closed" /\ cycles' = cycles + 1
         /\ hist' = Append(hist, <<"close", "", 0>>) /\ last' = <<"close", "", 0>>
         /\ UNCHANGED <<prebits, pos, fbits, ocount, inflight, j, committed, started, done, aborted>>
Export == /\ pc = "idle" /\ last[1] # "export"
          /\ fcount' = ocount
          /\ hist' = Append(hist, <<"export", "", 0>>) /\ last' = <<"export", "", 0>>
          /\ UNCHANGED <<prebits, pos, fbits, ocount, pc, inflight, j, committed, started, done, aborted, cycles>>
Clear == /\ pc = "idle" /\ last[1] # "clear" /\ done > 0
         /\ fbits' = {} /\ fcount' = 0 /\ ocount' = 0 /\ committed' = {} /\ started' = {} /\ done' = 0 /\ aborted' = FALSE
         /\ hist' = Append(hist, <<"clear", "", 0>>) /\ last' = <<"clear", "", 0>>
         /\ UNCHANGED <<prebits, pos, pc, inflight, j, cycles>>

Next == (\E k \in Keys : AddStart(k)) \/ SetBit \/ IncMem \/ FlushCount \/ AddEnd \/ Crash \/ Reopen \/ Close \/ Export \/ Clear
Spec == Init /\ [][Next]_vars
View == <<pos, fbits, fcount, ocount, pc, inflight, j, prebits, committed, started, done, aborted, cycles>>
Bound == Len(hist) <= MaxDepth

-----------------------------------------------------------------------------
(* C11, in EVERY state - in particular in every intermediate state of an add *)
ContainsCompleted == Bits(committed) \subseteq fbits
NoForeignBits == fbits \subseteq Bits(started)
CountCurrent == fcount = done \/ (pc = "ret" /\ fcount = done + 1)
CountNotAhead == fcount > done => PosSet(inflight) \subseteq fbits
CountLagsByOne == fcount <= done + 1 /\ fcount >= done
ObjectAgrees == pc = "idle" => ocount = done                       \* C14: reopen restores the count
ReopenKeeps == [][ last'[1] = "reopen" => (fbits' = fbits /\ fcount' = fcount /\ ocount' = fcount) ]_vars
CloseWritesCount == [][ last'[1] = "close" => (fcount' = done /\ fbits' = fbits) ]_vars

-----------------------------------------------------------------------------
BitSeq(b) == [p \in 1..M |-> IF (p - 1) \in b THEN 1 ELSE 0]
MidSeq(b, c, k) == LET m == Mids(b, c, k) IN [i \in 1..(K + 3) |-> [bits |-> BitSeq(m[i][1]), count |-> m[i][2]]]
IsOp == last'[1] # "tau"
Emit == IsOp => PrintT(ToJson([pos |-> pos, h |-> hist, a |-> last',
                  pre |-> [cb |-> BitSeq(Bits(committed)), sb |-> BitSeq(Bits(started)), done |-> done, aborted |-> aborted,
                           committed |-> committed],
                  mids |-> IF last'[1] \in {"add", "crashadd"}
                           THEN MidSeq(prebits, done, last'[2])     \* the file states the add passes through
                           ELSE <<>>,
                  e |-> [bits |-> BitSeq(fbits'), count |-> fcount', done |-> done', committed |-> committed',
                         aborted |-> aborted']]))
=============================================================================
