------------------------------- MODULE Cuckoo -------------------------------
(* probables.cuckoo.CuckooFilter and CountingCuckooFilter  (properties C03, C08, C14, C15; C05/C19 ride).

   The hash function is part of the model's input: FpRaw maps every key to the fingerprint bits its hash
   yields, and alt (chosen in Init: TLC enumerates every table) maps a fingerprint f to the value of
   hash(str(f)); the two candidate buckets of f at capacity c are  f % c  and  alt[f] % c.

   Concrete state : cap, tbl (cap buckets, each a sequence of bins <<fingerprint, count>>; the plain
                    filter has count = 1 everywhere), n (elements_added), uniq (unique_elements).
   History oracle : out[f] = outstanding additions of fingerprint f, advanced from the operations only.

   Every place where the implementation draws a random number is an explicit choice here.  The operators
   InsertSet / KickSet / ReinsertSet / ExpandSet return the SET of possible outcomes, each carrying the
   sequence of draws (ch) it consumed in the order the code draws them: first random.choice between the
   two buckets (0/1), then one random.randint slot per swap; the same again for every re-insertion of an
   expansion.  TLC therefore explores every resolution of the filter's internal randomness, and the
   harness forces the real code down each one by scripting `random`.

   Modelled behaviour = repaired behaviour: an insert that exhausts max_swaps puts the kicked bins back
   (table unchanged, the new bin is what is left over); an expansion that fails restores the table.     *)
EXTENDS Integers, Sequences, FiniteSets, SequencesExt, TLC, Json

CONSTANTS Keys,       \* key names
          FpRaw,      \* [Keys -> Nat] fingerprint bits of each key (0 allowed: it is mapped to 1)
          AltVals,    \* values hash(str(f)) may take
          BS, MS, Rate,
          Counting,   \* BOOLEAN: counting cuckoo filter
          Cap0s, Autos,
          MaxCap, MaxDepth, MaxOut, MaxReloads,
          NPARTS, PART,
          Queries,    \* BOOLEAN: look-ups are operations of the history (used with ViewH)
          Setters     \* BOOLEAN: the auto_expand setter is an operation (fill a filter, then freeze its size - or the reverse)

VARIABLES cap, tbl, n, uniq, out, alt, auto, c0, rl, hist, last
vars == <<cap, tbl, n, uniq, out, alt, auto, c0, rl, hist, last>>

NoE == <<>>
Fp(k) == IF FpRaw[k] = 0 THEN 1 ELSE FpRaw[k]
FPs == {Fp(k) : k \in Keys}

I1(f, c) == f % c
I2(f, c) == alt[f] % c
Room(t, i) == Len(t[i + 1]) < BS
Put(t, i, e) == [t EXCEPT ![i + 1] = Append(@, e)]
Has(t, i, f) == \E j \in 1..Len(t[i + 1]) : t[i + 1][j][1] = f
PosOf(b, f) == CHOOSE j \in 1..Len(b) : b[j][1] = f /\ \A m \in 1..(j - 1) : b[m][1] # f

-----------------------------------------------------------------------------
(* insertion with evictions: sets of outcomes [t, left, ch] *)
RECURSIVE KickSet(_, _, _, _, _, _, _, _)
KickSet(t, c, idx, e, k, used, t0, e0) ==
  IF k = 0 THEN {[t |-> t0, left |-> e0, ch |-> used]}           \* give up: kicked bins are put back
  ELSE UNION { LET victim == t[idx + 1][slot + 1]
                   t2     == [t EXCEPT ![idx + 1][slot + 1] = e]
                   nidx   == IF idx = I1(victim[1], c) THEN I2(victim[1], c) ELSE I1(victim[1], c)
                   u2     == Append(used, slot)
               IN IF Room(t2, nidx) THEN {[t |-> Put(t2, nidx, victim), left |-> NoE, ch |-> u2]}
                  ELSE KickSet(t2, c, nidx, victim, k - 1, u2, t0, e0)
             : slot \in 0..(BS - 1) }

InsertSet(t, c, e, used) ==
  LET i1 == I1(e[1], c)  i2 == I2(e[1], c) IN
  IF Room(t, i1) THEN {[t |-> Put(t, i1, e), left |-> NoE, ch |-> used]}
  ELSE IF Room(t, i2) THEN {[t |-> Put(t, i2, e), left |-> NoE, ch |-> used]}
  ELSE UNION { KickSet(t, c, IF side = 0 THEN i1 ELSE i2, e, MS, Append(used, side), t, e) : side \in 0..1 }

RECURSIVE ReinsertSet(_, _, _, _, _)
ReinsertSet(t, c, es, i, used) ==      \* expansion: left-over first, then the old buckets in order
  IF i > Len(es) THEN {[t |-> t, ok |-> TRUE, ch |-> used]}
  ELSE UNION { IF r.left # NoE THEN {[t |-> r.t, ok |-> FALSE, ch |-> r.ch]}
               ELSE ReinsertSet(r.t, c, es, i + 1, r.ch)
             : r \in InsertSet(t, c, es[i], used) }

RECURSIVE Flat(_, _)
Flat(t, i) == IF i > Len(t) THEN <<>> ELSE t[i] \o Flat(t, i + 1)
RECURSIVE SumCnt(_, _)
SumCnt(es, i) == IF i > Len(es) THEN 0 ELSE es[i][2] + SumCnt(es, i + 1)

St(c, t, nn, u) == [cap |-> c, tbl |-> t, n |-> nn, uniq |-> u]

ExpandSet(st, extra, used) ==
  LET es == (IF extra = NoE THEN <<>> ELSE <<extra>>) \o Flat(st.tbl, 1)
      c2 == st.cap * Rate
      t0 == [i \in 1..c2 |-> <<>>]
  IN { IF r.ok THEN [st |-> St(c2, r.t, SumCnt(es, 1), Len(es)), err |-> FALSE, ch |-> r.ch, grew |-> TRUE]
       ELSE [st |-> st, err |-> TRUE, ch |-> r.ch, grew |-> FALSE]      \* failed expansion: table restored
     : r \in ReinsertSet(t0, c2, es, 1, used) }

-----------------------------------------------------------------------------
(* public operations: sets of outcomes [st, err, ch, ret] *)
Bucket(st, f) == IF Has(st.tbl, I1(f, st.cap), f) THEN I1(f, st.cap)
                 ELSE IF Has(st.tbl, I2(f, st.cap), f) THEN I2(f, st.cap) ELSE -1

AddSet(st, a, k) ==
  LET f == Fp(k)  b == Bucket(st, f) IN
  IF b >= 0 THEN
     IF Counting
     THEN LET j == PosOf(st.tbl[b + 1], f) IN
          {[st |-> [st EXCEPT !.tbl[b + 1][j][2] = @ + 1, !.n = @ + 1], err |-> FALSE, ch |-> <<>>, ret |-> 0]}
     ELSE {[st |-> st, err |-> FALSE, ch |-> <<>>, ret |-> 0]}
  ELSE UNION { IF r.left = NoE
               THEN {[st |-> [st EXCEPT !.tbl = r.t, !.n = @ + 1, !.uniq = @ + 1], err |-> FALSE, ch |-> r.ch, ret |-> 0]}
               ELSE IF a
               THEN {[st |-> x.st, err |-> x.err, ch |-> x.ch, ret |-> 0] : x \in ExpandSet(st, r.left, r.ch)}
               ELSE {[st |-> st, err |-> TRUE, ch |-> r.ch, ret |-> 0]}
             : r \in InsertSet(st.tbl, st.cap, <<f, 1>>, <<>>) }



RemSet(st, k) ==
  LET f == Fp(k)  b == Bucket(st, f) IN
  IF b < 0 THEN {[st |-> st, err |-> FALSE, ch |-> <<>>, ret |-> 0]}
  ELSE LET j == PosOf(st.tbl[b + 1], f)  cnt == st.tbl[b + 1][j][2] IN
       IF Counting /\ cnt > 1
       THEN {[st |-> [st EXCEPT !.tbl[b + 1][j][2] = @ - 1, !.n = @ - 1], err |-> FALSE, ch |-> <<>>, ret |-> 1]}
       ELSE {[st |-> [st EXCEPT !.tbl[b + 1] = RemoveAt(@, j), !.n = @ - 1, !.uniq = @ - 1], err |-> FALSE, ch |-> <<>>, ret |-> 1]}

ExpSet(st) == {[st |-> x.st, err |-> x.err, ch |-> x.ch, ret |-> 0] : x \in ExpandSet(st, NoE, <<>>)}

StepSet(st, a, o) ==
  CASE o[1] = "add" -> AddSet(st, a, o[2])
    [] o[1] = "rem" -> RemSet(st, o[2])
    [] o[1] = "exp" -> ExpSet(st)
    [] o[1] \in {"rt", "chk", "auto"} -> {[st |-> st, err |-> FALSE, ch |-> <<>>, ret |-> 0]}     \* export + load, a look-up, the setter: identity on the table

(* the history oracle: outstanding additions per fingerprint, from the operations and their outcome only *)
OutStep(ou, o, err, ret) ==
  IF err THEN ou
  ELSE CASE o[1] = "add" -> [ou EXCEPT ![Fp(o[2])] = IF Counting THEN @ + 1 ELSE 1]
         [] o[1] = "rem" -> [ou EXCEPT ![Fp(o[2])] = IF @ = 0 THEN 0 ELSE IF Counting THEN @ - 1 ELSE 0]
         [] OTHER -> ou

Ops == {<<"add", k>> : k \in Keys} \cup {<<"rem", k>> : k \in Keys} \cup {<<"exp", "">>} \cup {<<"rt", "bytes">>, <<"rt", "file">>}
       \cup (IF Queries THEN {<<"chk", k>> : k \in Keys} ELSE {})
       \cup (IF Setters THEN {<<"auto", "T">>, <<"auto", "F">>} ELSE {})
          \* a look-up as an ACTION that changes nothing (C19), part of the history under ViewH: the code may keep state across it

-----------------------------------------------------------------------------
RECURSIVE TableNo(_, _)
TableNo(al, fs) == IF fs = {} THEN 0
                   ELSE LET f == CHOOSE x \in fs : \A y \in fs : x <= y IN
                        al[f] + (Cardinality(AltVals) + 1) * TableNo(al, fs \ {f})

Init == /\ alt \in [FPs -> AltVals]
        /\ (NPARTS > 1 => TableNo(alt, FPs) % NPARTS = PART)
        /\ cap \in Cap0s /\ auto \in Autos
        /\ tbl = [i \in 1..cap |-> <<>>]
        /\ n = 0 /\ uniq = 0 /\ rl = 0
        /\ out = [f \in FPs |-> 0]
        /\ c0 = [cap |-> cap, auto |-> auto, alt |-> alt]
        /\ hist = <<>> /\ last = [o |-> <<"init", "">>, ch |-> <<>>, err |-> FALSE, ret |-> 0]

Do(o) == /\ (o[1] = "rt" => rl < MaxReloads)
         /\ rl' = IF o[1] = "rt" THEN rl + 1 ELSE rl        \* part of the state: histories continue on the restored filter
         /\ \E r \in StepSet(St(cap, tbl, n, uniq), auto, o) :
           /\ cap' = r.st.cap /\ tbl' = r.st.tbl /\ n' = r.st.n /\ uniq' = r.st.uniq
           /\ out' = OutStep(out, o, r.err, r.ret)
           /\ last' = [o |-> o, ch |-> r.ch, err |-> r.err, ret |-> r.ret]
           /\ hist' = Append(hist, <<o, r.ch>>)
           /\ auto' = (IF o[1] = "auto" THEN o[2] = "T" ELSE auto)
           /\ UNCHANGED <<alt, c0>>

Next == \E o \in Ops : Do(o)
Spec == Init /\ [][Next]_vars
View == <<cap, tbl, n, uniq, out, alt, auto, rl>>
ViewH == <<cap, tbl, n, uniq, out, alt, auto, rl, hist>>      \* enumerate histories incl. their random choices (see CountMin.tla)
Bound == cap <= MaxCap /\ Len(hist) <= MaxDepth /\ \A f \in FPs : out[f] <= MaxOut

-----------------------------------------------------------------------------
(* properties *)
Present(f) == Bucket(St(cap, tbl, n, uniq), f) >= 0
CountOf(f) == LET b == Bucket(St(cap, tbl, n, uniq), f) IN
              IF b < 0 THEN 0 ELSE tbl[b + 1][PosOf(tbl[b + 1], f)][2]
AllBins == Flat(tbl, 1)

Kept == \A f \in FPs : out[f] > 0 => Present(f)                            \* C03
NoPhantom == \A f \in FPs : Present(f) => out[f] > 0
CountExact == \A f \in FPs : CountOf(f) = out[f]                            \* C08 (counting); plain: 0/1
BucketSize == \A i \in 1..cap : Len(tbl[i]) <= BS                           \* C15
Placement == \A i \in 1..cap : \A j \in 1..Len(tbl[i]) :
               LET f == tbl[i][j][1] IN i - 1 = I1(f, cap) \/ i - 1 = I2(f, cap)
NoDup == \A x, y \in 1..Len(AllBins) : x # y => AllBins[x][1] # AllBins[y][1]
CountPos == \A x \in 1..Len(AllBins) : AllBins[x][2] >= 1
CounterOK == n = SumCnt(AllBins, 1) /\ uniq = Len(AllBins)                   \* C14
ShapeOK == Len(tbl) = cap
CapChain == [][cap' = cap \/ cap' = cap * Rate]_vars                         \* C15
FailedKeeps == [][last'.err => (tbl' = tbl /\ cap' = cap /\ n' = n /\ uniq' = uniq)]_vars   \* C03

-----------------------------------------------------------------------------
Emit == PrintT(ToJson([c |-> c0, h |-> hist, a |-> last'.o, ch |-> last'.ch,
                       e |-> [cap |-> cap', tbl |-> tbl', n |-> n', uniq |-> uniq', out |-> out',
                              err |-> last'.err, ret |-> last'.ret]]))
=============================================================================
