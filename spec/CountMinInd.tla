---------------------------- MODULE CountMinInd ----------------------------
(* C02 at the design level, UNBOUNDED in the length of the history and in the amounts, for every hash table of a small
   geometry: an inductive invariant of the count-min update rule, checked by Apalache (symbolic, SMT).

     IndInv : every counter equals the sum of the true counts of the keys mapped to it in its row, the total equals the sum
              of all true counts, true counts are natural numbers (removals are legitimate: amount <= true count)
     1. Init => IndInv                      apalache-mc check --init=Init   --inv=IndInv --length=0
     2. IndInv /\ Next => IndInv'           apalache-mc check --init=IndInv --inv=IndInv --length=1
     3. IndInv => Bounds  (the property)    apalache-mc check --init=IndInv --inv=Bounds --length=0
   Bounds is C02's statement: in every row the key's counter is >= its true count (so the minimum is), every counter is
   <= the total, and a key sharing no counter with another key is counted exactly.
   The conformance engines (countmin.py, scale.py) bind the code to the same update rule (CountMin.tla, TraceScale.tla). *)
EXTENDS Integers, FiniteSets, Apalache

Keys == {"a", "b", "c"}
Rows == 1..2
Cols == 1..3

VARIABLES
  \* @type: Str -> (Int -> Int);
  h,
  \* @type: <<Int, Int>> -> Int;
  cell,
  \* @type: Str -> Int;
  tru,
  \* @type: Int;
  total

Contribution(r, c) == ApaFoldSet(LAMBDA acc, k: acc + (IF h[k][r] = c THEN tru[k] ELSE 0), 0, Keys)
SumAll == ApaFoldSet(LAMBDA acc, k: acc + tru[k], 0, Keys)

Init == /\ h \in [Keys -> [Rows -> Cols]]
        /\ cell = [p \in Rows \X Cols |-> 0]
        /\ tru = [k \in Keys |-> 0]
        /\ total = 0

Add(k, a) == /\ cell' = [p \in Rows \X Cols |-> IF h[k][p[1]] = p[2] THEN cell[p] + a ELSE cell[p]]
             /\ tru' = [tru EXCEPT ![k] = @ + a]
             /\ total' = total + a
             /\ UNCHANGED h
Rem(k, a) == /\ a <= tru[k]
             /\ cell' = [p \in Rows \X Cols |-> IF h[k][p[1]] = p[2] THEN cell[p] - a ELSE cell[p]]
             /\ tru' = [tru EXCEPT ![k] = @ - a]
             /\ total' = total - a
             /\ UNCHANGED h

Next == \E k \in Keys : \E a \in Int : a > 0 /\ (Add(k, a) \/ Rem(k, a))

IndInv == /\ h \in [Keys -> [Rows -> Cols]]
          /\ cell \in [Rows \X Cols -> Int]
          /\ tru \in [Keys -> Nat]
          /\ total = SumAll
          /\ \A r \in Rows : \A c \in Cols : cell[<<r, c>>] = Contribution(r, c)

Alone(k) == \E r \in Rows : \A k2 \in Keys : k2 # k => h[k2][r] # h[k][r]      \* some row where k shares its counter with nobody
Bounds == \A k \in Keys :
            /\ \A r \in Rows : cell[<<r, h[k][r]>>] >= tru[k]                       \* lower bound in every row, hence for the minimum
            /\ \A r \in Rows : cell[<<r, h[k][r]>>] <= total                        \* upper bound
            /\ Alone(k) => \E r \in Rows : cell[<<r, h[k][r]>>] = tru[k]           \* exact when isolated (the minimum is then tru[k])
Probe == total < 7 \/ \E k \in Keys : tru[k] = 0      \* must FAIL from IndInv (non-vacuity: IndInv admits large counts on every key)
=============================================================================
