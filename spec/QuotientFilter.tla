--------------------------- MODULE QuotientFilter ---------------------------
(* probables.quotientfilter.QuotientFilter (properties C04, C14, C19).

   Abstract state: the SET S of 32-bit hashes stored, the quotient size q, the element counter
   cnt and the auto_expand flag.  A hash is a pair <<hi, lo>>: hi = its top HB bits, lo = its low
   32-HB bits, so that quotient and remainder at every quotient size q <= HB are computed without
   leaving TLC's 32-bit integers:
        Quot(h,q) = hi div 2^(HB-q)        Rem(h,q) = (hi mod 2^(HB-q)) * 2^(32-HB) + lo

   The implementation keeps a table of 2^q slots (is_occupied, is_continuation, is_shifted,
   remainder).  That table is a function of (S, q) only (it is canonical); Layout(S,q) is its closed
   form, and Lookup / DecodeSeq transcribe the implementation's run-walking look-up and its
   hashes() generator over that table.  The invariants say that those algorithms recover exactly S
   from the table, on every reachable table shape (runs, clusters, shifted runs, wrap-around, full).

   Operations (tuples):  <<"add",h>>  <<"rem",h>>  <<"rsz",q'>> (q' = 0 means "double")
                         <<"mrg",T,q2,order>> (merge a second filter holding T at quotient size q2)
   A call that raises leaves the model state unchanged and is not appended to the history: the
   property only speaks about sequences of calls that did not raise.                              *)
EXTENDS Integers, Sequences, FiniteSets, SequencesExt, TLC, Json

CONSTANTS U,          \* universe of hashes <<hi, lo>>
          HB,         \* number of bits in hi
          MaxQ,       \* largest quotient size explored (<= HB)
          MaxEl,      \* bound on |S| (state constraint)
          MaxDepth,   \* bound on history length (state constraint)
          Q0s,        \* initial quotient sizes
          Autos,      \* initial auto_expand settings
          Queries,    \* BOOLEAN: look-ups are operations of the history
          RszArgs,    \* arguments tried for resize (0 = None/double)
          MergeOps,   \* set of <<T, q2>>: second operand of a merge (set held, its quotient size)
          AutoSet,    \* values the auto_expand setter is called with ({} = the setter is not an operation of this instance)
          LFs,        \* values <<n, d>> (= n/d) the max_load_factor setter is called with ({} likewise)
          NPARTS, PART,  \* emission partition
          EmitLayout     \* FALSE for the large quotient sizes (2^16, 2^24 slots): the slot table is not materialised there

VARIABLES S, q, cnt, auto, lf, c0, hist, last
vars == <<S, q, cnt, auto, lf, c0, hist, last>>
   \* lf = <<n, d>>: the maximum load factor n/d at which an add with auto_expand grows the table first. Every (re)build of the table
   \* - a manual resize and the automatic one alike - puts the default back (the implementation re-initialises its parameters there)
DefLF == <<85, 100>>

RECURSIVE Pow2(_)
Pow2(k) == IF k = 0 THEN 1 ELSE 2 * Pow2(k - 1)
Size(qq) == Pow2(qq)
LoW == Pow2(32 - HB)
Quot(h, qq) == h[1] \div Pow2(HB - qq)
Rem(h, qq)  == (h[1] % Pow2(HB - qq)) * LoW + h[2]
Mx(a, b) == IF a > b THEN a ELSE b

-----------------------------------------------------------------------------
(* canonical slot table *)
Cnts(T, qq) == [i \in 0..Size(qq)-1 |-> Cardinality({h \in T : Quot(h, qq) = i})]

RECURSIVE CarrySeq(_, _, _, _, _)
CarrySeq(cn, N, j, c, acc) ==     \* two laps of carry' = max(0, carry + count - 1); second lap recorded
  IF j = 2 * N THEN acc
  ELSE CarrySeq(cn, N, j + 1, Mx(0, c + cn[j % N] - 1), IF j >= N THEN Append(acc, c) ELSE acc)

Runs(T, qq) == [i \in 0..Size(qq)-1 |->
                  SetToSortSeq({Rem(h, qq) : h \in {x \in T : Quot(x, qq) = i}}, LAMBDA a, b : a < b)]

RECURSIVE PlaceRun(_, _, _, _, _, _)
PlaceRun(L, N, i, cin, run, j) ==   \* element j of the run of quotient i lives in slot i+cin+j-1
  IF j > Len(run) THEN L
  ELSE LET p == (i + cin + j - 1) % N IN
       PlaceRun([L EXCEPT ![p].con = IF j > 1 THEN 1 ELSE 0,
                          ![p].shf = IF cin + j - 1 > 0 THEN 1 ELSE 0,
                          ![p].rem = run[j]], N, i, cin, run, j + 1)

RECURSIVE PlaceAll(_, _, _, _, _)
PlaceAll(L, N, cins, runs, i) ==
  IF i = N THEN L ELSE PlaceAll(PlaceRun(L, N, i, cins[i + 1], runs[i], 1), N, cins, runs, i + 1)

Layout(T, qq) ==
  LET N == Size(qq)
      cn == Cnts(T, qq)
      cins == CarrySeq(cn, N, 0, 0, <<>>)
      L0 == [p \in 0..N-1 |-> [occ |-> IF cn[p] > 0 THEN 1 ELSE 0, con |-> 0, shf |-> 0, rem |-> 0]]
  IN PlaceAll(L0, N, cins, Runs(T, qq), 0)

-----------------------------------------------------------------------------
(* the implementation's algorithms over the table, with explicit fuel: -2 = did not terminate *)
Emp(L, p) == L[p].occ = 0 /\ L[p].con = 0 /\ L[p].shf = 0

RECURSIVE Back(_, _, _, _, _, _)
Back(L, N, qt, j, cnts, fuel) ==
  LET c2 == IF j = qt \/ L[j].occ = 1 THEN cnts + 1 ELSE cnts IN
  IF fuel = 0 THEN <<-2, 0>>
  ELSE IF L[j].shf = 1 THEN Back(L, N, qt, (j + N - 1) % N, c2, fuel - 1)
  ELSE <<j, c2>>

RECURSIVE Fwd(_, _, _, _, _)
Fwd(L, N, j, cnts, fuel) ==
  IF fuel = 0 THEN -2
  ELSE IF L[j].con = 0
       THEN IF cnts = 1 THEN j ELSE Fwd(L, N, (j + 1) % N, cnts - 1, fuel - 1)
       ELSE Fwd(L, N, (j + 1) % N, cnts, fuel - 1)

StartIdx(L, N, qt) ==
  IF Emp(L, qt) THEN qt
  ELSE LET b == Back(L, N, qt, qt, 0, 2 * N + 2) IN
       IF b[1] < 0 THEN -2 ELSE Fwd(L, N, b[1], b[2], 3 * N + 3)

RECURSIVE Scan(_, _, _, _, _, _)
Scan(L, N, p, starts, r, fuel) ==
  IF fuel = 0 THEN -2
  ELSE IF Emp(L, p) THEN -1
  ELSE LET s2 == IF L[p].con = 0 THEN starts + 1 ELSE starts IN
       IF s2 = 2 \/ L[p].rem > r THEN -1
       ELSE IF L[p].rem = r THEN p
       ELSE Scan(L, N, (p + 1) % N, s2, r, fuel - 1)

Lookup(L, qq, h) ==     \* _contained_at_loc: slot index, -1 = absent, -2 = no termination
  LET N == Size(qq)  qt == Quot(h, qq) IN
  IF L[qt].occ = 0 THEN -1
  ELSE LET s == StartIdx(L, N, qt) IN IF s < 0 THEN -2 ELSE Scan(L, N, s, 0, Rem(h, qq), 2 * N + 2)

RECURSIVE FirstSuch(_, _, _, _)
FirstSuch(L, N, p, wantEmpty) ==
  IF p = N THEN -1
  ELSE IF (wantEmpty /\ Emp(L, p)) \/ (~wantEmpty /\ L[p].occ = 1 /\ L[p].con = 0 /\ L[p].shf = 0) THEN p
  ELSE FirstSuch(L, N, p + 1, wantEmpty)

RECURSIVE DecodeFrom(_, _, _, _, _, _, _)
DecodeFrom(L, N, i, left, queue, cur, acc) ==    \* hashes(): sequence of <<quotient, remainder>>
  IF left = 0 THEN acc
  ELSE LET p == i % N IN
       IF Emp(L, p) THEN DecodeFrom(L, N, i + 1, left - 1, queue, cur, acc)
       ELSE LET q2 == IF L[p].occ = 1 THEN Append(queue, p) ELSE queue
                rs == L[p].con = 0 /\ (L[p].occ = 1 \/ L[p].shf = 1)
                cur2 == IF rs THEN (IF q2 = <<>> THEN -1 ELSE Head(q2)) ELSE cur
                q3 == IF rs /\ q2 # <<>> THEN Tail(q2) ELSE q2
            IN DecodeFrom(L, N, i + 1, left - 1, q3, cur2, Append(acc, <<cur2, L[p].rem>>))

DecodeSeq(L, qq) ==
  LET N == Size(qq)
      e == FirstSuch(L, N, 0, TRUE)
      st == IF e >= 0 THEN e ELSE FirstSuch(L, N, 0, FALSE)    \* full table: anchor at a cluster start
  IN IF st < 0 THEN <<>> ELSE DecodeFrom(L, N, st, N, <<>>, 0, <<>>)

Unsplit(qr, qq) ==    \* <<quotient, remainder>> at size qq  ->  <<hi, lo>>
  <<qr[1] * Pow2(HB - qq) + (qr[2] \div LoW), qr[2] % LoW>>

DecodedHashes(T, qq) == LET d == DecodeSeq(Layout(T, qq), qq) IN [i \in 1..Len(d) |-> Unsplit(d[i], qq)]

-----------------------------------------------------------------------------
(* operations as functions on the abstract state *)
St(s, qq, c, l) == [S |-> s, q |-> qq, cnt |-> c, lf |-> l, err |-> FALSE]
Err(st) == [st EXCEPT !.err = TRUE]

NeedGrow(a, l, qq, c) == a /\ l[2] * c >= l[1] * Size(qq)      \* load factor >= maximum; checked before the presence test

AddStep(st, a, h) ==
  LET grow == NeedGrow(a, st.lf, st.q, st.cnt)
      g == IF grow THEN st.q + 1 ELSE st.q
      l == IF grow THEN DefLF ELSE st.lf IN       \* at most half full after doubling: the re-insertion never grows again
  IF h \in st.S THEN [st EXCEPT !.q = g, !.lf = l]
  ELSE IF st.cnt = Size(g) THEN Err(st)
  ELSE [st EXCEPT !.S = @ \cup {h}, !.q = g, !.cnt = @ + 1, !.lf = l]

RemStep(st, h) == IF h \in st.S THEN [st EXCEPT !.S = @ \ {h}, !.cnt = @ - 1] ELSE st

RECURSIVE FinalQ(_, _, _)
FinalQ(a, qq, n) ==      \* quotient size after re-adding n hashes into a fresh table of size 2^qq
  IF a /\ n >= 1 /\ 100 * (n - 1) >= 85 * Size(qq) THEN FinalQ(a, qq + 1, n) ELSE qq

RszStep(st, a, arg) ==
  LET nq == IF arg = 0 THEN st.q + 1 ELSE arg IN
  IF st.cnt >= Size(nq) \/ nq < 3 \/ nq > 31 THEN Err(st)
  ELSE [st EXCEPT !.q = FinalQ(a, nq, st.cnt), !.lf = DefLF]

RECURSIVE FoldAdd(_, _, _, _)
FoldAdd(st, a, hs, i) ==
  IF i > Len(hs) \/ st.err THEN st ELSE FoldAdd(AddStep(st, a, hs[i]), a, hs, i + 1)

MrgStep(st, a, order) == FoldAdd(st, a, order, 1)     \* order = the second filter's hashes() order

Step(st, a, o) ==
  CASE o[1] = "add" -> AddStep(st, a, o[2])
    [] o[1] = "rem" -> RemStep(st, o[2])
    [] o[1] = "rsz" -> RszStep(st, a, o[2])
    [] o[1] = "mrg" -> MrgStep(st, a, o[4])
    [] o[1] = "chk" -> st      \* a look-up changes nothing (C19)
    [] o[1] = "auto" -> st     \* the auto_expand setter (the flag itself is the variable auto, see Do)
    [] o[1] = "lf" -> [st EXCEPT !.lf = <<o[2], o[3]>>]

(* a merge carries the second filter's set, its quotient size and (derived once) the order in which
   its hashes() generator yields them, which is the order merge() adds them in *)
MergeOpSet == {<<"mrg", m[1], m[2], DecodedHashes(m[1], m[2])>> : m \in MergeOps}

Ops == {<<"add", h>> : h \in U} \cup {<<"rem", h>> : h \in U}
       \cup {<<"rsz", x>> : x \in RszArgs} \cup MergeOpSet
       \cup (IF Queries THEN {<<"chk", h>> : h \in U} ELSE {})
       \cup {<<"auto", b>> : b \in AutoSet} \cup {<<"lf", l[1], l[2]>> : l \in LFs}
          \* look-ups as operations of the history (with ViewH): the code may keep state across them (a memo of the last slot found)

Init == /\ q \in Q0s /\ auto \in Autos
        /\ S = {} /\ cnt = 0 /\ lf = DefLF
        /\ c0 = [q |-> q, auto |-> auto]
        /\ hist = <<>> /\ last = <<"init">>

Do(o) == LET r == Step(St(S, q, cnt, lf), auto, o) IN
         /\ r.q <= MaxQ             \* growth beyond the modelled sizes is outside this instance
         /\ last' = <<o, r.err>>
         /\ auto' = (IF o[1] = "auto" THEN o[2] = "T" ELSE auto)
         /\ UNCHANGED c0
         /\ IF r.err THEN UNCHANGED <<S, q, cnt, lf, hist>>
            ELSE /\ S' = r.S /\ q' = r.q /\ cnt' = r.cnt /\ lf' = r.lf
                 /\ hist' = Append(hist, o)

Next == \E o \in Ops : Do(o)
Spec == Init /\ [][Next]_vars

View == <<S, q, cnt, auto, lf, c0>>
ViewH == <<S, q, cnt, auto, lf, c0, hist>>          \* enumerate histories (see CountMin.tla)
Bound == Cardinality(S) <= MaxEl /\ Len(hist) <= MaxDepth

-----------------------------------------------------------------------------
(* properties *)
TypeOK == S \subseteq U /\ q \in 3..MaxQ /\ cnt \in 0..Cardinality(U)
CountIsSize == cnt = Cardinality(S)                                   \* C04 / C14
Fits == cnt <= Size(q)

LookupExact ==                                                        \* C04: membership is exact
  LET L == Layout(S, q) IN \A h \in U : LET r == Lookup(L, q, h) IN r # -2 /\ ((r >= 0) <=> (h \in S))

DecodeExact ==                                                        \* C04: hashes() lists exactly S, once each
  LET d == DecodedHashes(S, q) IN Len(d) = Cardinality(S) /\ {d[i] : i \in 1..Len(d)} = S

AutoKeepsRoom == (auto /\ AutoSet = {} /\ LFs = {}) => (S = {} \/ 100 * (cnt - 1) < 85 * Size(q))   \* auto_expand (never switched, default load factor) never lets the table fill
RebuildResetsLF == [][ (q' # q) => lf' = DefLF ]_vars

SetSemantics == [][ LET o == last'[1] IN
                    /\ (last'[2] => UNCHANGED <<S, q, cnt>>)
                    /\ (~last'[2] /\ o[1] = "add" => S' = S \cup {o[2]})
                    /\ (~last'[2] /\ o[1] = "rem" => S' = S \ {o[2]})
                    /\ (~last'[2] /\ o[1] = "rsz" => S' = S)
                    /\ (~last'[2] /\ o[1] = "mrg" => S' = S \cup o[2]) ]_vars

-----------------------------------------------------------------------------
(* emission *)
SetSum(T) == LET RECURSIVE Sm(_) Sm(X) == IF X = {} THEN 0 ELSE LET x == CHOOSE y \in X : TRUE IN x[1] * 3 + x[2] + Sm(X \ {x})
             IN Sm(T)
Mine == (SetSum(S) + q) % NPARTS = PART

LaySeq(T, qq) == LET L == Layout(T, qq) N == Size(qq) IN
                 [p \in 1..N |-> <<L[p-1].occ, L[p-1].con, L[p-1].shf, L[p-1].rem>>]

FirstOp == <<"add", CHOOSE h \in U : TRUE>>

Emit == Mine => PrintT(ToJson([c |-> c0, h |-> hist, a |-> last'[1],
                  e |-> [S |-> S', q |-> q', cnt |-> cnt', err |-> last'[2], auto |-> auto', lf |-> lf'],
                  lay |-> IF EmitLayout /\ last'[1] = FirstOp THEN LaySeq(S, q) ELSE <<>>]))
=============================================================================
