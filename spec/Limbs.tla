------------------------------- MODULE Limbs -------------------------------
(* Arbitrary-precision naturals and integers for TLC (whose own integers are 32-bit): a natural is a little-endian
   sequence of limbs in base 2^15; an integer is a record [neg, mag].  Used by Sizing.tla (C07) and TraceSat.tla (C16). *)
EXTENDS Integers, Sequences

B == 32768

RECURSIVE Strip(_)
Strip(a) == IF a = <<>> THEN <<>> ELSE IF a[Len(a)] = 0 THEN Strip(SubSeq(a, 1, Len(a) - 1)) ELSE a

RECURSIVE CmpFrom(_, _, _)
CmpFrom(a, b, i) == IF i = 0 THEN 0 ELSE IF a[i] < b[i] THEN -1 ELSE IF a[i] > b[i] THEN 1 ELSE CmpFrom(a, b, i - 1)
Cmp(x, y) == LET a == Strip(x)  b == Strip(y) IN
             IF Len(a) < Len(b) THEN -1 ELSE IF Len(a) > Len(b) THEN 1 ELSE CmpFrom(a, b, Len(a))
Leq(x, y) == Cmp(x, y) <= 0

Limb(a, i) == IF i <= Len(a) THEN a[i] ELSE 0
RECURSIVE AddC(_, _, _, _, _)
AddC(a, b, i, c, acc) == IF i > Len(a) /\ i > Len(b) THEN (IF c = 0 THEN acc ELSE Append(acc, c))
                         ELSE LET s == Limb(a, i) + Limb(b, i) + c IN AddC(a, b, i + 1, s \div B, Append(acc, s % B))
Add(a, b) == AddC(a, b, 1, 0, <<>>)

RECURSIVE SubC(_, _, _, _, _)
SubC(a, b, i, br, acc) == IF i > Len(a) THEN acc           \* requires a >= b
                          ELSE LET s == a[i] - Limb(b, i) - br IN
                               IF s < 0 THEN SubC(a, b, i + 1, 1, Append(acc, s + B)) ELSE SubC(a, b, i + 1, 0, Append(acc, s))
Sub(a, b) == SubC(a, b, 1, 0, <<>>)

RECURSIVE MulSC(_, _, _, _, _)
MulSC(a, s, i, c, acc) == IF i > Len(a) THEN (IF c = 0 THEN acc ELSE Append(acc, c))
                          ELSE LET p == a[i] * s + c IN MulSC(a, s, i + 1, p \div B, Append(acc, p % B))
MulSmall(a, s) == MulSC(a, s, 1, 0, <<>>)                  \* 0 <= s < 2^15

ShiftLimbs(a, n) == [i \in 1..(Len(a) + n) |-> IF i <= n THEN 0 ELSE a[i - n]]
RECURSIVE MulFrom(_, _, _)
MulFrom(a, b, i) == IF i > Len(b) THEN <<>> ELSE Add(ShiftLimbs(MulSmall(a, b[i]), i - 1), MulFrom(a, b, i + 1))
Mul(a, b) == MulFrom(a, b, 1)

RECURSIVE P2(_)
P2(k) == IF k = 0 THEN 1 ELSE 2 * P2(k - 1)
Pow2L(x) == ShiftLimbs(<<P2(x % 15)>>, x \div 15)           \* 2^x
Small(n) == IF n < B THEN <<n>> ELSE <<n % B, (n \div B) % B, n \div (B * B)>>   \* n < 2^31


-----------------------------------------------------------------------------
(* signed integers *)
IsZero(a) == Strip(a) = <<>>
SInt(neg, mag) == [neg |-> neg /\ ~IsZero(mag), mag |-> Strip(mag)]
SAdd(x, y) ==
  IF x.neg = y.neg THEN SInt(x.neg, Add(x.mag, y.mag))
  ELSE IF Cmp(x.mag, y.mag) >= 0 THEN SInt(x.neg, Sub(x.mag, y.mag))
  ELSE SInt(y.neg, Sub(y.mag, x.mag))
SNeg(x) == SInt(~x.neg, x.mag)
SSub(x, y) == SAdd(x, SNeg(y))
SCmp(x, y) ==     \* -1, 0, 1
  IF x.neg /\ ~y.neg THEN -1 ELSE IF ~x.neg /\ y.neg THEN 1
  ELSE IF ~x.neg THEN Cmp(x.mag, y.mag) ELSE Cmp(y.mag, x.mag)
SLeq(x, y) == SCmp(x, y) <= 0
SMin(x, y) == IF SLeq(x, y) THEN x ELSE y
SMax(x, y) == IF SLeq(x, y) THEN y ELSE x
SClamp(x, lo, hi) == SMax(lo, SMin(x, hi))
SEq(x, y) == SCmp(x, y) = 0
Zero == SInt(FALSE, <<>>)
=============================================================================
