------------------------------- MODULE Compat -------------------------------
(* Operand compatibility rules of union / intersection / jaccard_index (Bloom, on-disk Bloom, counting Bloom)
   and of count-min join (property C13).  A configuration is [g1, g2, probe, foreign] (foreign = "" for a real structure): the two geometry numbers
   (bits and hashes, or width and depth) and the value the hash function yields for the probe key "test".
   Expected outcome of op(c1, c2):   "result"  compatible: a result / the merge happens
                                     "none"    Bloom family, different geometry or hash: returns None
                                     "error"   count-min join, mismatch: raises CountMinSketchError
                                     "type"    foreign right operand: raises TypeError
   In every case no operand other than the receiver of a successful join may change.                       *)
EXTENDS Integers, Sequences, FiniteSets, TLC, Json

CONSTANTS Configs, Foreign, Families

VARIABLES fam, c1, c2, done
vars == <<fam, c1, c2, done>>

Compatible(a, b) == a.g1 = b.g1 /\ a.g2 = b.g2 /\ a.probe = b.probe

Outcome(f, a, b) ==
  IF b.foreign # "" THEN "type"
  ELSE IF Compatible(a, b) THEN "result"
  ELSE IF f = "cms" THEN "error" ELSE "none"

Init == /\ fam \in Families /\ c1 \in Configs /\ c2 \in Configs \cup Foreign /\ done = FALSE
Next == /\ ~done /\ done' = TRUE /\ UNCHANGED <<fam, c1, c2>>
Spec == Init /\ [][Next]_vars

(* the rules are symmetric and reflexive on configurations *)
Symmetric == \A a, b \in Configs : Compatible(a, b) = Compatible(b, a)
Reflexive == \A a \in Configs : Compatible(a, a)
Emit == PrintT(ToJson([fam |-> fam, c1 |-> c1, c2 |-> c2, out |-> Outcome(fam, c1, c2)]))
=============================================================================
