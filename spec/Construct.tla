----------------------------- MODULE Construct -----------------------------
(* Which requests the constructors accept (beyond the listed properties: part of the system's behaviour the specification covers).
   A parameter is a rational <<num, den>> with den > 0, or None == <<0, 0>> (argument not given).  A case is
   [id, cls, p (sequence of parameters), aux, got]: aux = 1 iff the independently derived number of Bloom hashes is >= 1 (it involves a
   logarithm, so the harness supplies it); got = "ok" if the real constructor returned an object, "rejected" if it raised.
        Bloom family (est_elements, false_positive_rate) : est > 0 and 0 < rate < 1 and at least one hash
        count-min (width, depth)                          : width >= 1 and depth > 0 (truncated to integers; see Accept)
        count-min (confidence, error_rate)                : 0 < confidence < 1 and error_rate > 0
        cuckoo (capacity, bucket_size, max_swaps, finger_size) : the first three >= 1, fingerprint of 1..4 bytes
        quotient filter (quotient)                        : 3..31
        Bitarray (size)                                   : an integer >= 1
   A mismatch is conformance drift (the model no longer describes the code), never a property verdict.                         *)
EXTENDS Integers, Sequences, TLC, Json

None == <<0, 0>>
Given(x) == x # None
Lt(x, y) == x[1] * y[2] < y[1] * x[2]          \* x < y for rationals with positive denominators
Leq(x, y) == x[1] * y[2] <= y[1] * x[2]
R(n) == <<n, 1>>
IsInt(x) == x[2] = 1

Accept(c) ==
  LET p == c.p IN
  CASE c.cls = "bloom"     -> Given(p[1]) /\ Given(p[2]) /\ Lt(R(0), p[1]) /\ Lt(R(0), p[2]) /\ Lt(p[2], R(1)) /\ c.aux = 1
    [] c.cls = "cms_wd"    -> Given(p[1]) /\ Given(p[2]) /\ Leq(R(1), p[1]) /\ Lt(R(0), p[2])
                              \* as the code does it (a named deviation from the documented "integers >= 1"): both must be > 0, then they are
                              \* truncated; a width below 1 dies in 2 / width, a depth below 1 is accepted and gives a sketch without rows
    [] c.cls = "cms_ce"    -> Given(p[1]) /\ Given(p[2]) /\ Lt(R(0), p[1]) /\ Lt(p[1], R(1)) /\ Lt(R(0), p[2])
    [] c.cls = "cuckoo"    -> (\A j \in 1..3 : Given(p[j]) /\ Leq(R(1), p[j])) /\ Given(p[4]) /\ Leq(R(1), p[4]) /\ Leq(p[4], R(4))
    [] c.cls = "qf"        -> Given(p[1]) /\ Leq(R(3), p[1]) /\ Leq(p[1], R(31))
    [] c.cls = "bits"      -> Given(p[1]) /\ IsInt(p[1]) /\ Leq(R(1), p[1])

Cases == JsonDeserialize("cases.json")
VARIABLES i
Init == i = 1
Next == /\ i <= Len(Cases)
        /\ PrintT(ToJson([verdict |-> Cases[i].id, expected |-> IF Accept(Cases[i]) THEN "ok" ELSE "rejected", got |-> Cases[i].got]))
        /\ i' = i + 1
Spec == Init /\ [][Next]_i
=============================================================================
