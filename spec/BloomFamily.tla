---------------------------- MODULE BloomFamily ----------------------------
(* BloomFilter / BloomFilterOnDisk (Counting = FALSE) and CountingBloomFilter (Counting = TRUE).
   Properties C01, C08 (counting Bloom part), C12, C13, C14, C16, C19; C05 rides on every state.

   The hash function is input: pos[k] is the sequence of K raw hash values of key k (values up to H >= M so
   that the reduction modulo M is exercised); TLC takes it from the set Tables.
   Two filters A and B of the same geometry evolve independently; union, intersection and the Jaccard index
   of the pair are *derived* in every state (UnionCells, InterCells, Jaccard), so every pair of reachable
   operand states is compared with what the real classes compute.

   A filter is [cells, n, out]:
     cells : sequence of M cell values (0/1 for a plain Bloom filter, 0..CellMax for a counting one)
     n     : elements_added
     out   : history oracle, outstanding additions per key since the last clear (never read by operations)

   Operations: <<"rt", who, channel, 0>> (export + load)  <<"add", who, key, amount>>  <<"rem", who, key, amount>> (counting only; only legitimate
   removals are generated: amount <= outstanding count, or the key is reported absent)  <<"clear", who>>
   <<"uni", who>> / <<"int", who>>: the union / intersection of (A, B) is ADOPTED as filter `who`, so that results of the binary
   operations become operands and receivers of later operations. The library sets the counter of such a result to the
   documented estimate of distinct elements, int(-(M/K) ln(1 - X/M)) for X set cells: TLC has no logarithm, so the M+1 values are
   the constant EstTab (EstTab[X + 1]; produced by the engine with 50-digit arithmetic; -1 = "cannot estimate", every cell set);
   `nest` marks a counter that started as an estimate (its documented meaning is then not the number of calls).
   Removals are legitimate on such a result too (it owes every key its operands owed); the counter is pinned at 0 there.
   Saturation (C16): a cell is pinned at CellMax, the counter at TotMax; a counting cell that reached
   CellMax is never decremented again.                                                               *)
EXTENDS Integers, Sequences, FiniteSets, TLC, Json

CONSTANTS Keys, M, K, Tables, Counting, CellMax, TotMax, Amts, MaxN, MaxDepth, Whos, Channels, MaxReloads, MaxAdopt, Queries, EstTab, Bad, SetN

VARIABLES pos, fs, hist, last
vars == <<pos, fs, hist, last>>

Mn(a, b) == IF a < b THEN a ELSE b
Mx0(a) == IF a < 0 THEN 0 ELSE a
P(k, i) == (pos[k][i] % M) + 1            \* 1-based cell index of the i-th position of key k

EmptyF == [cells |-> [p \in 1..M |-> 0], n |-> 0, out |-> [k \in Keys |-> 0], sat |-> FALSE, rl |-> 0, nest |-> FALSE, ad |-> 0, npin |-> FALSE]
   \* npin (history oracle): the counter has been pinned at its lower limit 0 since the last clear (possible only after it started as an estimate)
   \* nest: the counter started as the estimate of an adopted result;  ad: number of adoptions (bounded, like rl)
   \* sat (history oracle): some cell or the counter has been clamped since the last clear
   \* rl: number of export+load round trips the object went through (part of the state, so histories continue on the restored object)

-----------------------------------------------------------------------------
(* add: the K positions are updated one after the other, so coinciding positions are hit once per
   occurrence ("original methodology"); returns the smallest of the K values written *)
RECURSIVE AddCells(_, _, _, _, _)
AddCells(cells, k, amt, i, mn) ==
  IF i > K THEN <<cells, mn>>
  ELSE LET p == P(k, i)
           v == IF Counting THEN Mn(cells[p] + amt, CellMax) ELSE 1
       IN AddCells([cells EXCEPT ![p] = v], k, amt, i + 1, IF mn < 0 THEN v ELSE Mn(mn, v))

AddF(f, k, amt) ==
  LET r == AddCells(f.cells, k, amt, 1, -1) IN
  [f |-> [cells |-> r[1], n |-> Mn(f.n + amt, TotMax), out |-> [f.out EXCEPT ![k] = @ + amt],
          sat |-> f.sat \/ f.n + amt >= TotMax \/ (Counting /\ \E p \in 1..M : r[1][p] >= CellMax), rl |-> f.rl, nest |-> f.nest, ad |-> f.ad,
          npin |-> f.npin],
   ret |-> IF Counting THEN r[2] ELSE -1]

Est(f, k) ==      \* check(): minimum over the key's cells (1/0 for the plain filter)
  LET S == {f.cells[P(k, i)] : i \in 1..K} IN CHOOSE m \in S : \A x \in S : m <= x

RECURSIVE SubCells(_, _, _, _)
SubCells(cells, k, amt, i) ==
  IF i > K THEN cells
  ELSE LET p == P(k, i) IN
       SubCells(IF cells[p] < CellMax THEN [cells EXCEPT ![p] = @ - amt] ELSE cells, k, amt, i + 1)

RemF(f, k, amt) ==
  LET mv == Est(f, k) IN
  IF mv = CellMax THEN [f |-> f, ret |-> CellMax]          \* saturated: never decremented again
  ELSE IF mv = 0 THEN [f |-> f, ret |-> 0]                   \* reported absent: nothing changes
  ELSE LET t == Mn(amt, mv) IN
       [f |-> [cells |-> SubCells(f.cells, k, t, 1), n |-> Mx0(f.n - t),      \* the counter never goes below its lower limit 0 (possible only
               out |-> [f.out EXCEPT ![k] = IF @ >= t THEN @ - t ELSE 0],       \* when it started as an estimate: an estimate counts distinct keys)
               sat |-> f.sat, rl |-> f.rl, nest |-> f.nest, ad |-> f.ad, npin |-> f.npin \/ f.n - t < 0],
        ret |-> mv - t]

-----------------------------------------------------------------------------
(* derived binary operations on (A, B) *)
UnionCells(a, b) == [p \in 1..M |-> IF Counting THEN Mn(a.cells[p] + b.cells[p], CellMax)
                                    ELSE IF a.cells[p] + b.cells[p] > 0 THEN 1 ELSE 0]
InterCells(a, b) == [p \in 1..M |-> IF a.cells[p] > 0 /\ b.cells[p] > 0
                                    THEN (IF Counting THEN Mn(a.cells[p] + b.cells[p], CellMax) ELSE 1) ELSE 0]
Jaccard(a, b) == LET u == Cardinality({p \in 1..M : a.cells[p] > 0 \/ b.cells[p] > 0})
                     i == Cardinality({p \in 1..M : a.cells[p] > 0 /\ b.cells[p] > 0})
                 IN IF u = 0 THEN <<1, 1>> ELSE <<i, u>>
SetBits(f) == Cardinality({p \in 1..M : f.cells[p] > 0})
(* the result of a binary operation taken as a filter: every key owed by an operand (union) / by both (intersection) is owed by it *)
Adopted(a, b, old, op) ==
  LET cells == IF op = "uni" THEN UnionCells(a, b) ELSE InterCells(a, b) IN
  [cells |-> cells, n |-> EstTab[Cardinality({p \in 1..M : cells[p] > 0}) + 1],
   out |-> [k \in Keys |-> IF op = "uni" THEN a.out[k] + b.out[k] ELSE IF a.out[k] > 0 /\ b.out[k] > 0 THEN a.out[k] + b.out[k] ELSE 0],
   sat |-> a.sat \/ b.sat \/ (Counting /\ \E p \in 1..M : cells[p] >= CellMax), rl |-> old.rl, nest |-> TRUE, ad |-> old.ad + 1, npin |-> FALSE]

-----------------------------------------------------------------------------
LegitRem(f, k, amt) == amt <= f.out[k] \/ Est(f, k) = 0

Ops == {<<"add", w, k, a>> : w \in Whos, k \in Keys, a \in Amts}
       \cup (IF Counting THEN {<<"rem", w, k, a>> : w \in Whos, k \in Keys, a \in Amts} ELSE {})
       \cup {<<"clear", w, "", 0>> : w \in Whos}
       \cup {<<"rt", w, c, 0>> : w \in Whos, c \in Channels}          \* export + load through channel c: identity on the abstract state
       \cup {<<op, w, "", 0>> : op \in {"uni", "int"}, w \in Whos}
       \cup (IF Queries THEN {<<"chk", w, k, 0>> : w \in Whos, k \in Keys} \cup {<<"est", w, "", 0>> : w \in Whos} ELSE {})
       \cup {<<"setn", w, "", v>> : w \in Whos, v \in SetN}          \* the public elements_added setter (in-memory filters): the counter is
                                                                      \* then whatever the caller said (nest: no longer its documented meaning)
       \cup {<<"bad", w, k, v>> : w \in Whos, k \in Keys, v \in Bad}
          \* a call the library REJECTS (v = 1: add_alt, 2: remove_alt, 3: check_alt with a hash list that is too short): it raises, and the
          \* caller carries on with the same object - nothing was added, nothing removed (Bad = {} switches these off)
          \* queries (check; estimate_elements / current rate / str) are ACTIONS that change nothing (C19); see CountMin.tla

Init == /\ pos \in Tables
        /\ fs = [w \in {"A", "B"} |-> EmptyF]
        /\ hist = <<>> /\ last = [o |-> <<"init", "", "", 0>>, ret |-> -1]

Do(o) == LET w == o[2]  f == fs[w] IN
         /\ CASE o[1] = "add" -> LET r == AddF(f, o[3], o[4]) IN fs' = [fs EXCEPT ![w] = r.f] /\ last' = [o |-> o, ret |-> r.ret]
              [] o[1] = "rem" -> /\ LegitRem(f, o[3], o[4])      \* also on an adopted result: it owes what its operands owed
                                 /\ LET r == RemF(f, o[3], o[4]) IN fs' = [fs EXCEPT ![w] = r.f] /\ last' = [o |-> o, ret |-> r.ret]
              [] o[1] = "clear" -> fs' = [fs EXCEPT ![w] = [EmptyF EXCEPT !.rl = f.rl, !.ad = f.ad]] /\ last' = [o |-> o, ret |-> -1]
              [] o[1] \in {"chk", "est", "bad"} -> fs' = fs /\ last' = [o |-> o, ret |-> -1]
              [] o[1] = "setn" -> fs' = [fs EXCEPT ![w].n = o[4], ![w].nest = TRUE] /\ last' = [o |-> o, ret |-> -1]
              [] o[1] \in {"uni", "int"} -> /\ f.ad < MaxAdopt
                                            /\ fs' = [fs EXCEPT ![w] = Adopted(fs["A"], fs["B"], f, o[1])] /\ last' = [o |-> o, ret |-> -1]
              [] o[1] = "rt" -> /\ f.rl < MaxReloads
                                /\ fs' = [fs EXCEPT ![w].rl = @ + 1] /\ last' = [o |-> o, ret |-> -1]
         /\ hist' = Append(hist, o)
         /\ UNCHANGED pos

Next == \E o \in Ops : Do(o)
Spec == Init /\ [][Next]_vars
View == <<pos, fs>>
ViewH == <<pos, fs, hist>>       \* no merging: the search enumerates histories (see CountMin.tla); used on the smallest instances
Bound == Len(hist) <= MaxDepth /\ \A w \in {"A", "B"} : \A k \in Keys : fs[w].out[k] <= MaxN

-----------------------------------------------------------------------------
(* properties *)
TypeOK == \A w \in {"A", "B"} : /\ \A p \in 1..M : fs[w].cells[p] \in 0..CellMax
                                /\ fs[w].n <= TotMax /\ fs[w].n >= (IF fs[w].nest THEN -1 ELSE 0)     \* -1: the documented "cannot estimate" value
NoFalseNegative ==                                   \* C01 / C08: never below the outstanding count
  \A w \in {"A", "B"} : \A k \in Keys :
     fs[w].out[k] > 0 => (IF Counting THEN Est(fs[w], k) >= Mn(fs[w].out[k], CellMax) ELSE Est(fs[w], k) = 1)
UnionSuperset ==                                     \* C12: the union reports every key either operand reports
  LET u == [EmptyF EXCEPT !.cells = UnionCells(fs["A"], fs["B"])] IN
  \A k \in Keys : (Est(fs["A"], k) > 0 \/ Est(fs["B"], k) > 0) => Est(u, k) > 0
UnionSumLower ==                                     \* C12: never below the sum of the operands' true counts
  LET u == [EmptyF EXCEPT !.cells = UnionCells(fs["A"], fs["B"])] IN
  Counting => \A k \in Keys : Est(u, k) >= Mn(fs["A"].out[k] + fs["B"].out[k], CellMax)
InterBoth ==                                         \* C13: the intersection reports every key both report
  LET x == [EmptyF EXCEPT !.cells = InterCells(fs["A"], fs["B"])] IN
  \A k \in Keys : (Est(fs["A"], k) > 0 /\ Est(fs["B"], k) > 0) => Est(x, k) > 0
JaccardOK == LET j == Jaccard(fs["A"], fs["B"]) IN                    \* C13
             /\ j[1] >= 0 /\ j[1] <= j[2] /\ j = Jaccard(fs["B"], fs["A"])
             /\ (fs["A"].cells = fs["B"].cells => j[1] = j[2])
CounterMeaning ==                                    \* C14 below saturation: calls / net amounts
  \A w \in {"A", "B"} : LET RECURSIVE S(_) S(X) == IF X = {} THEN 0 ELSE LET k == CHOOSE y \in X : TRUE IN fs[w].out[k] + S(X \ {k})
                        IN (~fs[w].sat /\ ~fs[w].nest) => fs[w].n = S(Keys)
Monotone == [][ \A w \in {"A", "B"} : (last'.o[1] \in {"add", "uni"} /\ last'.o[2] = w) =>
                   \A p \in 1..M : fs'[w].cells[p] >= fs[w].cells[p] ]_vars           \* C01: add only sets
RemoveUndoesAdd ==                                   \* C08: below the limit, remove(k,a) after add(k,a) restores cells and n
  Counting => \A w \in {"A", "B"} : \A k \in Keys : \A a \in Amts :
     LET f == fs[w]  r == AddF(f, k, a) IN
     ((\A p \in 1..M : r.f.cells[p] < CellMax) /\ r.f.n < TotMax /\ f.n >= 0) =>       \* f.n = -1: the "cannot estimate" value of a result
        LET u == RemF(r.f, k, a) IN u.f.cells = f.cells /\ u.f.n = f.n
SaturatedStays == [][ Counting => \A w \in {"A", "B"} : \A p \in 1..M :
                        (fs[w].cells[p] = CellMax /\ last'.o[1] \notin {"clear", "int"}) => fs'[w].cells[p] = CellMax ]_vars   \* C16

-----------------------------------------------------------------------------
FView(f) == [cells |-> f.cells, n |-> f.n, out |-> f.out, sat |-> f.sat, nest |-> f.nest, npin |-> f.npin, est |-> [k \in Keys |-> Est(f, k)], bits |-> SetBits(f)]
Emit == PrintT(ToJson([pos |-> pos, h |-> hist, a |-> last'.o, ret |-> last'.ret,
                       e |-> [A |-> FView(fs'["A"]), B |-> FView(fs'["B"]),
                              U |-> UnionCells(fs'["A"], fs'["B"]), I |-> InterCells(fs'["A"], fs'["B"]),
                              J |-> Jaccard(fs'["A"], fs'["B"])]]))
=============================================================================
