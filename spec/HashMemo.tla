------------------------------ MODULE HashMemo ------------------------------
(* C18, trace validation (code -> spec): recorded calls  strategy(key, depth) -> values  of every shipped hashing
   strategy and of strategies built by the decorators are checked against what a pure, prefix-stable function
   must look like.  State: memo[<<strategy, key identity>>] = the longest answer seen so far.
   An event is [s, mk, units, d, r, oor]:  strategy name, memo key (the UTF-8 bytes of the key; a text key and its
   UTF-8 bytes share it whenever the property says they must hash alike), the key's units, the depth asked for,
   the returned values as 8-limb sequences, and oor = some returned value was not an unsigned 64-bit integer.
   Every trace gets a verdict: the set of clauses it violated (empty = accepted).                            *)
EXTENDS FNV1a, FiniteSets, TLC, Json

Traces == JsonDeserialize("traces.json")
NT == Len(Traces)

VARIABLES tid, l, memo, fails
vars == <<tid, l, memo, fails>>

Ev == Traces[tid].ev[l]
Key(e) == <<e.s, e.mk>>
Related(a, b) == IsPrefix2(a, b) \/ IsPrefix2(b, a)

Bad(e) ==
  (IF Len(e.r) # e.d THEN {"C18.len"} ELSE {})
  \cup (IF e.oor \/ \E i \in 1..Len(e.r) : ~IsLimbs(e.r[i], 8) THEN {"C18.range"} ELSE {})
  \cup (IF Key(e) \in DOMAIN memo /\ ~Related(memo[Key(e)], e.r) THEN {"C18.pure_prefix"} ELSE {})
  \cup (IF e.ref /\ e.r # DefaultFnv(e.units, e.d) THEN {"C18.fnv_ref"} ELSE {})

Init == tid = 1 /\ l = 1 /\ memo = <<>> /\ fails = {}

Step == /\ tid <= NT /\ l <= Len(Traces[tid].ev)
        /\ LET e == Ev IN
           /\ fails' = fails \cup {<<c, l>> : c \in Bad(e)}
           /\ memo' = IF Key(e) \in DOMAIN memo /\ Len(memo[Key(e)]) >= Len(e.r) THEN memo
                      ELSE (Key(e) :> e.r) @@ memo
        /\ l' = l + 1 /\ tid' = tid

NextTrace == /\ tid <= NT /\ l > Len(Traces[tid].ev)
             /\ PrintT(ToJson([verdict |-> Traces[tid].id, n |-> Len(Traces[tid].ev), fails |-> fails]))
             /\ tid' = tid + 1 /\ l' = 1 /\ memo' = <<>> /\ fails' = {}

Next == Step \/ NextTrace
Spec == Init /\ [][Next]_vars
AllConsumed == tid = NT + 1
=============================================================================
