------------------------------- MODULE Layout -------------------------------
(* The documented C-compatible export layouts, as an independent WRITER (the Encode operators) and an independent READER
   (the Read operators) over sequences of bytes - property C06 (and the byte level of C05).  Written from the format
   description:  cell array, then a fixed footer, everything little-endian (the hex form of the Bloom
   family has a big-endian footer).
     Bloom            : bit i is bit (i mod 8) of byte (i div 8), padding bits 0   | Q est  Q n  f rate
     counting Bloom   : one unsigned 32-bit cell per position                      | Q est  Q n  f rate
     count-min        : depth rows of width signed 32-bit counters                 | I width I depth q total
     expanding/rotating: per filter  Q n + Bloom bit array                         | Q filters Q est Q n f rate
     cuckoo           : capacity buckets of bucket_size unsigned 32-bit fingerprints, 0 = empty | I bucket_size I max_swaps
     counting cuckoo  : the same with (fingerprint, count) pairs
   Positions come from the documented hashing rule: FNV-1a seeded per index, position = hash mod size.
   The 32-bit float rate is carried as its 4 raw bytes (TLC has no floats).                              *)
EXTENDS FNV1a, FiniteSets

RECURSIVE Concat(_, _)
Concat(ss, i) == IF i > Len(ss) THEN <<>> ELSE ss[i] \o Concat(ss, i + 1)

LE(n, w) == ToLimbs(n, w)                                          \* n >= 0, small
LESigned(n, w) == IF n >= 0 THEN ToLimbs(n, w)                       \* two's complement of a negative number
                  ELSE LET m == ToLimbs(0 - n - 1, w) IN [i \in 1..w |-> 255 - m[i]]
Rev(s) == [i \in 1..Len(s) |-> s[Len(s) + 1 - i]]

Pow2(k) == IF k = 0 THEN 1 ELSE IF k = 1 THEN 2 ELSE IF k = 2 THEN 4 ELSE IF k = 3 THEN 8
           ELSE IF k = 4 THEN 16 ELSE IF k = 5 THEN 32 ELSE IF k = 6 THEN 64 ELSE 128

-----------------------------------------------------------------------------
(* positions of a key: Fnv64(key, seed i-1) mod size, i = 1..k *)
Positions(units, k, size) == [i \in 1..k |-> ModSmall(Fnv64s(units, i - 1), size)]

-----------------------------------------------------------------------------
(* WRITER *)
BitBytes(bits, m) ==      \* bits: sequence of m values 0/1
  [jj \in 1..((m + 7) \div 8) |->
     LET RECURSIVE S(_) S(t) == IF t = 8 THEN 0
                                ELSE (IF 8 * (jj - 1) + t + 1 <= m THEN bits[8 * (jj - 1) + t + 1] * Pow2(t) ELSE 0) + S(t + 1)
     IN S(0)]

BloomFooter(est, n, rate4) == LE(est, 8) \o LE(n, 8) \o rate4
EncodeBloom(bits, m, est, n, rate4) == BitBytes(bits, m) \o BloomFooter(est, n, rate4)
EncodeCounting(cells, est, n, rate4) == Concat([i \in 1..Len(cells) |-> LE(cells[i], 4)], 1) \o BloomFooter(est, n, rate4)
EncodeCMS(cells, w, d, total) == Concat([i \in 1..Len(cells) |-> LESigned(cells[i], 4)], 1) \o LE(w, 4) \o LE(d, 4) \o LESigned(total, 8)
EncodeExpanding(subs, m, est, total, rate4) ==       \* subs: sequence of [bits, n]
  Concat([i \in 1..Len(subs) |-> LE(subs[i].n, 8) \o BitBytes(subs[i].bits, m)], 1)
  \o LE(Len(subs), 8) \o LE(est, 8) \o LE(total, 8) \o rate4
EncodeCuckoo(buckets, bs, ms) ==                     \* buckets: sequence of sequences of 4-limb fingerprints
  Concat([i \in 1..Len(buckets) |->
            Concat([jj \in 1..bs |-> IF jj <= Len(buckets[i]) THEN buckets[i][jj] ELSE <<0, 0, 0, 0>>], 1)], 1)
  \o LE(bs, 4) \o LE(ms, 4)
EncodeCountingCuckoo(buckets, bs, ms) ==             \* entries <<fingerprint limbs, count>>
  Concat([i \in 1..Len(buckets) |->
            Concat([jj \in 1..bs |-> IF jj <= Len(buckets[i]) THEN buckets[i][jj][1] \o LE(buckets[i][jj][2], 4)
                                     ELSE <<0, 0, 0, 0, 0, 0, 0, 0>>], 1)], 1)
  \o LE(bs, 4) \o LE(ms, 4)

(* hex form of the Bloom family: same cells, footer fields big-endian *)
HexBloomFooter(est, n, rate4) == Rev(LE(est, 8)) \o Rev(LE(n, 8)) \o Rev(rate4)

-----------------------------------------------------------------------------
(* READER: given only the exported bytes, the geometry derived from the footer, and a key *)
U32(b, off) == b[off + 1] + 256 * b[off + 2] + 65536 * b[off + 3] + 16777216 * b[off + 4]     \* < 2^31 here
S32(b, off) == IF b[off + 4] >= 128
               THEN 0 - ((255 - b[off + 1]) + 256 * (255 - b[off + 2]) + 65536 * (255 - b[off + 3]) + 16777216 * (255 - b[off + 4])) - 1
               ELSE U32(b, off)
BitAt(b, p) == (b[(p \div 8) + 1] \div Pow2(p % 8)) % 2

ReadBloom(b, units, m, k) ==      \* TRUE iff the key is reported present
  LET ps == Positions(units, k, m) IN \A i \in 1..k : BitAt(b, ps[i]) = 1
ReadCounting(b, units, m, k) ==
  LET ps == Positions(units, k, m)  S == {U32(b, 4 * ps[i]) : i \in 1..k} IN CHOOSE x \in S : \A y \in S : x <= y

RECURSIVE InsS(_, _)
InsS(s, x) == IF s = <<>> THEN <<x>> ELSE IF x <= Head(s) THEN <<x>> \o s ELSE <<Head(s)>> \o InsS(Tail(s), x)
RECURSIVE Srt(_, _)
Srt(s, i) == IF i > Len(s) THEN <<>> ELSE InsS(Srt(s, i + 1), s[i])
RECURSIVE Sum(_, _)
Sum(s, i) == IF i > Len(s) THEN 0 ELSE s[i] + Sum(s, i + 1)

NotComparable == 0 - 999999
ReadCMS(b, units, w, d, mode) ==
  LET ps == Positions(units, d, w)
      vals == Srt([i \in 1..d |-> S32(b, 4 * (ps[i] + (i - 1) * w))], 1)
      total == S32(b, 4 * w * d + 8)          \* low half of the signed 64-bit total (small totals)
  IN CASE mode = "min" -> vals[1]
       [] mode = "mean" -> Sum(vals, 1) \div d
       [] mode = "mean-min" ->
            IF vals[1] = 0 /\ vals[d] = 0 THEN 0
            ELSE LET mm == Srt([i \in 1..d |-> vals[i] - ((total - vals[i]) \div (w - 1))], 1) IN
                 \* integer division is FLOOR division (the documented Python semantics), also on negative operands
                 IF d % 2 = 0 THEN (mm[d \div 2 + 1] + mm[d \div 2]) \div 2 ELSE mm[d \div 2 + 1]

FooterOK(b, cellBytes, expected) == Len(b) = cellBytes + Len(expected) /\ SubSeq(b, cellBytes + 1, Len(b)) = expected
=============================================================================
