-------------------------- MODULE CountingBloomInd --------------------------
(* C08 (counting Bloom part) at the design level, UNBOUNDED in history length and amounts, for every hash table of a small
   geometry (K = 2 probes per key, coinciding probes allowed: such a cell is hit once per occurrence, as in the code):
   inductive invariant checked by Apalache, same three steps as CountMinInd.tla.
     IndInv : every cell equals the sum over the keys of (outstanding count x number of the key's probes on that cell)
     Exact  : check(k) >= outstanding count of k; a key none of whose cells is touched by another key is counted exactly
              (x the multiplicity of its least-hit cell = 1 when its probes differ); removing what was added restores the cells. *)
EXTENDS Integers, FiniteSets, Apalache

Keys == {"a", "b", "c"}
Cells == 1..4

VARIABLES
  \* @type: Str -> <<Int, Int>>;
  pos,
  \* @type: Int -> Int;
  cell,
  \* @type: Str -> Int;
  out,
  \* @type: Int;
  n

Mult(k, p) == (IF pos[k][1] = p THEN 1 ELSE 0) + (IF pos[k][2] = p THEN 1 ELSE 0)
Times(a, m) == IF m = 0 THEN 0 ELSE IF m = 1 THEN a ELSE a + a
Contribution(p) == ApaFoldSet(LAMBDA acc, k: acc + Times(out[k], Mult(k, p)), 0, Keys)
SumAll == ApaFoldSet(LAMBDA acc, k: acc + out[k], 0, Keys)

Init == /\ pos \in [Keys -> Cells \X Cells]
        /\ cell = [p \in Cells |-> 0]
        /\ out = [k \in Keys |-> 0]
        /\ n = 0

Add(k, a) == /\ cell' = [p \in Cells |-> cell[p] + Times(a, Mult(k, p))]
             /\ out' = [out EXCEPT ![k] = @ + a]
             /\ n' = n + a
             /\ UNCHANGED pos
Rem(k, a) == /\ a <= out[k]                                          \* legitimate removal
             /\ cell' = [p \in Cells |-> cell[p] - Times(a, Mult(k, p))]
             /\ out' = [out EXCEPT ![k] = @ - a]
             /\ n' = n - a
             /\ UNCHANGED pos
Next == \E k \in Keys : \E a \in Int : a > 0 /\ (Add(k, a) \/ Rem(k, a))

IndInv == /\ pos \in [Keys -> Cells \X Cells]
          /\ cell \in [Cells -> Int]
          /\ out \in [Keys -> Nat]
          /\ n = SumAll
          /\ \A p \in Cells : cell[p] = Contribution(p)

Est(k) == IF cell[pos[k][1]] <= cell[pos[k][2]] THEN cell[pos[k][1]] ELSE cell[pos[k][2]]
Alone(k) == pos[k][1] # pos[k][2] /\ \A k2 \in Keys : k2 # k => (Mult(k2, pos[k][1]) = 0 /\ Mult(k2, pos[k][2]) = 0)
Exact == \A k \in Keys : /\ Est(k) >= out[k]
                         /\ Alone(k) => Est(k) = out[k]
                         /\ \A p \in Cells : cell[p] >= 0
Probe == n < 9 \/ \E k \in Keys : out[k] = 0       \* must FAIL from IndInv (non-vacuity)
=============================================================================
