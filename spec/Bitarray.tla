------------------------------ MODULE Bitarray ------------------------------
(* probables.utilities.Bitarray: a fixed-length vector of n bits (property C20).

   Two levels are kept side by side:
     bits  : the abstract list of n bits the property talks about;
     bytes : the packed representation the implementation keeps (bit i is bit i mod 8 of
             byte i div 8), updated with the same byte arithmetic as the code.
   Invariant Refines says the packed form always decodes to the list and its padding bits are 0.

   Operations are tuples <<name, index, value>>.  An operation is *rejected* (error, no change)
   iff its index is outside 0..n-1 or, for an assignment, its value is not 0/1.              *)
EXTENDS Integers, Sequences, FiniteSets, TLC, Json

CONSTANTS N,        \* number of bits
          IdxLo, IdxHi,   \* indices explored (include negative and >= N ones)
          Vals      \* values explored for assignment (include -1 and 2)

CONSTANT HDepth
VARIABLES bits, bytes, hist, last
vars == <<bits, bytes, hist, last>>

Pow2(k) == IF k = 0 THEN 1 ELSE IF k = 1 THEN 2 ELSE IF k = 2 THEN 4 ELSE IF k = 3 THEN 8
           ELSE IF k = 4 THEN 16 ELSE IF k = 5 THEN 32 ELSE IF k = 6 THEN 64 ELSE 128

NBytes(n) == (n + 7) \div 8

BA_InRange(n, i) == i >= 0 /\ i < n

IndexedOps == {"set", "clr", "asg", "get", "chk", "isset"}

BA_Valid(n, o) ==
  IF o[1] \in IndexedOps
  THEN BA_InRange(n, o[2]) /\ (o[1] = "asg" => o[3] \in {0, 1})
  ELSE TRUE

(* abstract step on the list *)
BA_Step(n, b, o) ==
  IF ~BA_Valid(n, o) THEN b
  ELSE CASE o[1] = "set"   -> [b EXCEPT ![o[2] + 1] = 1]
         [] o[1] = "clr"   -> [b EXCEPT ![o[2] + 1] = 0]
         [] o[1] = "asg"   -> [b EXCEPT ![o[2] + 1] = o[3]]
         [] o[1] = "clear" -> [i \in 1..n |-> 0]
         [] OTHER          -> b

(* value returned by a read; -1 stands for "returns nothing" *)
BA_Ret(n, b, o) ==
  IF ~BA_Valid(n, o) THEN -1
  ELSE IF o[1] \in {"get", "chk", "isset"} THEN b[o[2] + 1]
  ELSE -1

BitOf(byte, k) == (byte \div Pow2(k)) % 2

(* the implementation's step on the packed bytes: or / and-not of one mask *)
ByteSet(x, k) == IF BitOf(x, k) = 1 THEN x ELSE x + Pow2(k)
ByteClr(x, k) == IF BitOf(x, k) = 1 THEN x - Pow2(k) ELSE x

BY_Step(n, y, o) ==
  IF ~BA_Valid(n, o) THEN y
  ELSE LET j == (o[2] \div 8) + 1   k == o[2] % 8 IN
       CASE o[1] = "set" -> [y EXCEPT ![j] = ByteSet(y[j], k)]
         [] o[1] = "clr" -> [y EXCEPT ![j] = ByteClr(y[j], k)]
         [] o[1] = "asg" -> [y EXCEPT ![j] = IF o[3] = 1 THEN ByteSet(y[j], k) ELSE ByteClr(y[j], k)]
         [] o[1] = "clear" -> [i \in 1..NBytes(n) |-> 0]
         [] OTHER -> y

RECURSIVE SumSeq(_, _)
SumSeq(s, i) == IF i > Len(s) THEN 0 ELSE s[i] + SumSeq(s, i + 1)
BA_Pop(b) == SumSeq(b, 1)

Decode(n, y) == [i \in 1..n |-> BitOf(y[((i - 1) \div 8) + 1], (i - 1) % 8)]
PaddingZero(n, y) == \A t \in n..(8 * NBytes(n) - 1) : BitOf(y[(t \div 8) + 1], t % 8) = 0

Ops == {<<nm, i, 0>> : nm \in {"set", "clr", "get", "chk", "isset"}, i \in IdxLo..IdxHi}
       \cup {<<"asg", i, v>> : i \in IdxLo..IdxHi, v \in Vals}
       \cup {<<"clear", 0, 0>>, <<"pop", 0, 0>>, <<"str", 0, 0>>}

Init == /\ bits = [i \in 1..N |-> 0]
        /\ bytes = [i \in 1..NBytes(N) |-> 0]
        /\ hist = <<>>
        /\ last = <<"init", 0, 0>>

Do(o) == /\ bits' = BA_Step(N, bits, o)
         /\ bytes' = BY_Step(N, bytes, o)
         /\ last' = o
         /\ hist' = Append(hist, o)

Next == \E o \in Ops : Do(o)
Spec == Init /\ [][Next]_vars

View == <<bits, bytes>>
(* ViewH / HBound: enumerate HISTORIES (reads, counts and string forms included) of a tiny array up to HDepth operations: the code may
   keep state across calls (a cached count) that only a particular order of operations shows *)
ViewH == <<bits, bytes, hist>>
HBound == Len(hist) <= HDepth

----------------------------------------------------------------------------
(* design-level properties *)
TypeOK == /\ bits \in [1..N -> {0, 1}]
          /\ bytes \in [1..NBytes(N) -> 0..255]
Refines == Decode(N, bytes) = bits /\ PaddingZero(N, bytes)
PopOK == BA_Pop(bits) = Cardinality({i \in 1..N : bits[i] = 1})

(* frame: an operation on index i changes position i only; a rejected one changes nothing *)
Frame == [][ LET o == last' IN
             /\ (~BA_Valid(N, o) => bits' = bits)
             /\ (o[1] \in IndexedOps /\ BA_Valid(N, o) =>
                    \A j \in 1..N : j # o[2] + 1 => bits'[j] = bits[j])
             /\ (o[1] \in {"get", "chk", "isset", "pop", "str"} => bits' = bits)
             /\ (o[1] \in {"set"} /\ BA_Valid(N, o) => bits'[o[2] + 1] = 1)
             /\ (o[1] \in {"clr"} /\ BA_Valid(N, o) => bits'[o[2] + 1] = 0)
             /\ (o[1] \in {"asg"} /\ BA_Valid(N, o) => bits'[o[2] + 1] = o[3]) ]_vars

----------------------------------------------------------------------------
(* spec -> code emission: source history, action, and what the successor must look like *)
Emit == PrintT(ToJson([n |-> N, h |-> hist, a |-> last',
                       e |-> [bits |-> bits', bytes |-> bytes', pop |-> BA_Pop(bits'),
                              rej |-> ~BA_Valid(N, last'), ret |-> BA_Ret(N, bits, last')]]))
=============================================================================
