--------------------------- MODULE ExpandingProof ---------------------------
(* Unbounded, design-level proof (TLAPS) of the capacity rule of the expanding / rotating Bloom filter for an ARBITRARY est_elements >= 1
   and histories of any length: no internal filter ever receives more than Est insertions, and an insertion opens a new filter only when
   the newest one is full (C09 / C10).  The abstraction keeps what the rule talks about: the insertion count of the newest filter and
   the set of counts of the sealed (older) ones; bits play no role.  Additional evidence next to the bounded TLC runs of
   ExpandingBloom.tla and the conformance replays (a proof about the model says nothing about the code).                              *)
EXTENDS Integers, TLAPS

CONSTANT Est
ASSUME EstPos == Est \in Nat /\ Est >= 1

VARIABLES newest, sealed
vars == <<newest, sealed>>

Init == newest = 0 /\ sealed = {}
(* an effective insertion: the growth test comes first *)
Insert == IF newest >= Est
          THEN newest' = 1 /\ sealed' = sealed \cup {newest}
          ELSE newest' = newest + 1 /\ sealed' = sealed
Push == newest' = 0 /\ sealed' = sealed \cup {newest}                       \* explicit push: seal the newest whatever it holds
Drop == newest' = newest /\ \E S \in SUBSET sealed : sealed' = S            \* rotation / pop: older filters are discarded
Next == Insert \/ Push \/ Drop
Spec == Init /\ [][Next]_vars

Cap == newest \in 0..Est /\ \A c \in sealed : c \in 0..Est                  \* nobody holds more than Est insertions
NoEarlyGrowth == [][ (Insert /\ sealed' # sealed) => newest = Est ]_vars    \* an insertion seals only a FULL newest filter

THEOREM CapInvariant == Spec => []Cap
<1>1. Init => Cap
  BY EstPos DEF Init, Cap
<1>2. Cap /\ [Next]_vars => Cap'
  <2> SUFFICES ASSUME Cap, [Next]_vars PROVE Cap'
    OBVIOUS
  <2>1. CASE Insert
    BY <2>1, EstPos DEF Insert, Cap
  <2>2. CASE Push
    BY <2>2, EstPos DEF Push, Cap
  <2>3. CASE Drop
    BY <2>3 DEF Drop, Cap
  <2>4. CASE UNCHANGED vars
    BY <2>4 DEF vars, Cap
  <2> QED
    BY <2>1, <2>2, <2>3, <2>4 DEF Next
<1> QED
  BY <1>1, <1>2, PTL DEF Spec

THEOREM GrowsOnlyWhenFull == Spec => NoEarlyGrowth
<1>1. Cap /\ [Next]_vars => [(Insert /\ sealed' # sealed) => newest = Est]_vars
  BY EstPos DEF Insert, Cap, vars
<1> QED
  BY <1>1, CapInvariant, PTL DEF Spec, NoEarlyGrowth
=============================================================================
