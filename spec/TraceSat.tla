------------------------------ MODULE TraceSat ------------------------------
(* C16 with the REAL storage limits (code -> spec).  Histories recorded from CountingBloomFilter and CountMinSketch with
   amounts around 2^31, 2^32, 2^63, 2^64 are re-executed here in arbitrary-precision integers (Limbs.tla); after every
   step the returned value, every cell and the element total recorded from the implementation must equal the model's
   (equality IS the property: pinned at the limit, nothing half-updated).
     counting Bloom : cells 0 .. 2^32-1, total 0 .. 2^64-1; a cell at the limit is never decremented again
     count-min      : cells -2^31 .. 2^31-1, total -2^63 .. 2^63-1; join skips receiver cells already at a limit
   A trace is [id, kind, w, d, pos, ev]; pos[k] = the key's cell indices (0-based, one per hash / row; rows already offset);
   an event is [op, k, a, ret, cells, total, other, raised]; numbers are [neg, mag] with mag in base 2^15 limbs.          *)
EXTENDS Limbs, TLC, Json

Traces == JsonDeserialize("traces.json")
NT == Len(Traces)

VARIABLES tid, l, cells, total, fails
vars == <<tid, l, cells, total, fails>>
T == Traces[tid]

N(x) == SInt(x.neg, x.mag)                       \* normalise a recorded number
TwoTo(n) == SInt(FALSE, Pow2L(n))
One == SInt(FALSE, <<1>>)
U32Max == SSub(TwoTo(32), One)
U64Max == SSub(TwoTo(64), One)
I32Max == SSub(TwoTo(31), One)
I32Min == SNeg(TwoTo(31))
I64Max == SSub(TwoTo(63), One)
I64Min == SNeg(TwoTo(63))

RECURSIVE MinOf(_, _, _)
MinOf(vals, i, m) == IF i > Len(vals) THEN m ELSE MinOf(vals, i + 1, IF i = 1 THEN vals[1] ELSE SMin(m, vals[i]))

(* counting Bloom: positions one after the other (coinciding positions are hit once per occurrence) *)
RECURSIVE CbAdd(_, _, _, _, _)
CbAdd(cs, ps, a, i, vals) ==
  IF i > Len(ps) THEN <<cs, vals>>
  ELSE LET v == SMin(SAdd(cs[ps[i] + 1], a), U32Max) IN CbAdd([cs EXCEPT ![ps[i] + 1] = v], ps, a, i + 1, Append(vals, v))
RECURSIVE CbSub(_, _, _, _)
CbSub(cs, ps, t, i) ==
  IF i > Len(ps) THEN cs
  ELSE CbSub(IF SCmp(cs[ps[i] + 1], U32Max) < 0 THEN [cs EXCEPT ![ps[i] + 1] = SSub(@, t)] ELSE cs, ps, t, i + 1)

(* count-min: every row has its own cell *)
CmsUpd(cs, ps, delta) ==
  LET nv == [i \in 1..Len(ps) |-> SClamp(SAdd(cs[ps[i] + 1], delta), I32Min, I32Max)] IN
  <<[p \in 1..Len(cs) |-> IF \E i \in 1..Len(ps) : ps[i] + 1 = p THEN nv[CHOOSE i \in 1..Len(ps) : ps[i] + 1 = p] ELSE cs[p]], nv>>

Apply(e) ==       \* -> [cells, total, ret]
  LET ps == IF e.k > 0 THEN T.pos[e.k] ELSE <<>>   a == N(e.a) IN
  IF T.kind = "cbloom" THEN
     CASE e.op = "add" -> LET r == CbAdd(cells, ps, a, 1, <<>>) IN
                          [cells |-> r[1], total |-> SMin(SAdd(total, a), U64Max), ret |-> MinOf(r[2], 1, Zero)]
       [] e.op = "rem" -> LET mv == MinOf([i \in 1..Len(ps) |-> cells[ps[i] + 1]], 1, Zero) IN
                          IF SEq(mv, U32Max) THEN [cells |-> cells, total |-> total, ret |-> U32Max]
                          ELSE IF SEq(mv, Zero) THEN [cells |-> cells, total |-> total, ret |-> Zero]
                          ELSE LET t == SMin(a, mv) IN [cells |-> CbSub(cells, ps, t, 1), total |-> SSub(total, t), ret |-> SSub(mv, t)]
       [] e.op = "union" -> [cells |-> cells, total |-> total, ret |-> Zero]       \* a query: judged by UnionOK
       [] OTHER -> [cells |-> [p \in 1..Len(cells) |-> Zero], total |-> Zero, ret |-> Zero]
  ELSE
     CASE e.op = "add" -> LET r == CmsUpd(cells, ps, a) IN
                          [cells |-> r[1], total |-> SMin(SAdd(total, a), I64Max), ret |-> MinOf(r[2], 1, Zero)]
       [] e.op = "rem" -> LET r == CmsUpd(cells, ps, SNeg(a)) IN
                          [cells |-> r[1], total |-> SMax(SSub(total, a), I64Min), ret |-> MinOf(r[2], 1, Zero)]
       [] e.op = "join" ->      \* e.other = [cells, total] of the second sketch
            [cells |-> [p \in 1..Len(cells) |->
                          IF SEq(cells[p], I32Min) \/ SEq(cells[p], I32Max) THEN cells[p]
                          ELSE SClamp(SAdd(cells[p], N(e.other.cells[p])), I32Min, I32Max)],
             total |-> SClamp(SAdd(total, N(e.other.total)), I64Min, I64Max), ret |-> Zero]
       [] OTHER -> [cells |-> [p \in 1..Len(cells) |-> Zero], total |-> Zero, ret |-> Zero]

(* counting-Bloom union of this filter with e.other: cell-wise sum pinned at 2^32-1; e.cells holds the RESULT's cells *)
UnionOK(e) == /\ Len(e.cells) = Len(cells)
              /\ \A p \in 1..Len(cells) : SEq(N(e.cells[p]), SMin(SAdd(cells[p], N(e.other.cells[p])), U32Max))

SameCells(a, b) == Len(a) = Len(b) /\ \A i \in 1..Len(a) : SEq(a[i], N(b[i]))

Init == tid = 1 /\ l = 1 /\ fails = {}
        /\ cells = (IF NT = 0 THEN <<>> ELSE [p \in 1..(Traces[1].w * Traces[1].d) |-> Zero]) /\ total = Zero

Step == /\ tid <= NT /\ l <= Len(T.ev)
        /\ LET e == T.ev[l]
               r == IF e.raised THEN [cells |-> cells, total |-> total, ret |-> Zero] ELSE Apply(e)   \* a call that raised is the last event of its trace
           IN
           /\ cells' = r.cells /\ total' = r.total
           /\ fails' = fails
                \cup (IF e.raised THEN {<<"C16.returns", l>>} ELSE {})
                \cup (IF ~e.raised /\ e.op \in {"add", "rem"} /\ ~SEq(r.ret, N(e.ret)) THEN {<<"C16.pinned_value", l>>} ELSE {})
                \cup (IF ~e.raised /\ e.op # "union" /\ ~SameCells(r.cells, e.cells) THEN {<<"C16.no_half_update", l>>, <<"C06.cells", l>>} ELSE {})
                      \* the cells are read from the exported bytes: the same comparison is C06's "filled with exactly the cells the history gives",
                      \* here for histories that reach a storage limit (pinned cells stay pinned in the export)
                \cup (IF ~e.raised /\ e.op = "union" /\ ~UnionOK(e) THEN {<<"C16.union_clamped", l>>} ELSE {})
                \cup (IF ~e.raised /\ e.op = "union" /\ ~UnionOK(e)                                  \* no cell of the true sum is saturated: plain C12
                         /\ \A p \in 1..Len(cells) : SCmp(SAdd(cells[p], N(e.other.cells[p])), U32Max) < 0 THEN {<<"C12.cells", l>>} ELSE {})
                \cup (IF ~e.raised /\ ~e.other_same THEN {<<"C13.operands_unchanged", l>>, <<"C19.operand_unchanged", l>>} ELSE {})
                \cup (IF ~e.raised /\ e.op # "union" /\ ~SEq(r.total, N(e.total)) THEN {<<"C16.total_pinned", l>>} ELSE {})
                \cup (IF ~e.raised /\ ~e.other_same THEN {<<"C16.operand_unchanged", l>>} ELSE {})
                \cup (IF ~e.raised /\ ~e.rt THEN {<<"C16.exportable", l>>} ELSE {})
        /\ l' = l + 1 /\ tid' = tid

NextTrace == /\ tid <= NT /\ l > Len(T.ev)
             /\ PrintT(ToJson([verdict |-> T.id, n |-> Len(T.ev), fails |-> fails]))
             /\ tid' = tid + 1 /\ l' = 1 /\ fails' = {} /\ total' = Zero
             /\ cells' = (IF tid + 1 > NT THEN <<>> ELSE [p \in 1..(Traces[tid + 1].w * Traces[tid + 1].d) |-> Zero])

Next == Step \/ NextTrace
Spec == Init /\ [][Next]_vars

LimitSanity == /\ SEq(SAdd(I32Max, One), TwoTo(31)) /\ SEq(SSub(I32Min, One), SNeg(SAdd(TwoTo(31), One)))
               /\ SEq(SClamp(SAdd(U32Max, One), Zero, U32Max), U32Max) /\ SCmp(I64Min, I32Min) < 0
=============================================================================
