----------------------------- MODULE BloomProof -----------------------------
(* Unbounded, design-level proof (TLAPS) that a Bloom filter has no false negatives, for ARBITRARY key sets, sizes,
   numbers of hashes and hash functions: additional evidence next to the bounded TLC runs and the conformance
   replays (a proof about the model says nothing about the code; the conformance checks bind the code).          *)
EXTENDS Integers, TLAPS

CONSTANTS Keys, M, K, Pos(_, _)          \* Pos(k, i): the i-th cell of key k
ASSUME Geometry == M \in Nat \ {0} /\ K \in Nat \ {0}
ASSUME HashRange == \A k \in Keys, i \in 1..K : Pos(k, i) \in 0..(M - 1)

VARIABLES bits, added
vars == <<bits, added>>

PosSet(k) == {Pos(k, i) : i \in 1..K}
Present(k) == PosSet(k) \subseteq bits

Init == bits = {} /\ added = {}
Add(k) == bits' = bits \cup PosSet(k) /\ added' = added \cup {k}
Clear == bits' = {} /\ added' = {}
Union(other) == bits' = bits \cup other /\ added' = added        \* uniting with any other filter's cells only adds bits
Next == (\E k \in Keys : Add(k)) \/ Clear \/ (\E other \in SUBSET (0..(M - 1)) : Union(other))
Spec == Init /\ [][Next]_vars

NoFalseNegative == \A k \in added : Present(k)
TypeOK == bits \subseteq 0..(M - 1) /\ added \subseteq Keys

THEOREM Safety == Spec => []NoFalseNegative
<1>1. Init => NoFalseNegative
  BY DEF Init, NoFalseNegative
<1>2. NoFalseNegative /\ [Next]_vars => NoFalseNegative'
  <2> SUFFICES ASSUME NoFalseNegative, [Next]_vars PROVE NoFalseNegative'
    OBVIOUS
  <2>1. CASE \E k \in Keys : Add(k)
    BY <2>1 DEF Add, NoFalseNegative, Present, PosSet
  <2>2. CASE Clear
    BY <2>2 DEF Clear, NoFalseNegative
  <2>3. CASE \E other \in SUBSET (0..(M - 1)) : Union(other)
    BY <2>3 DEF Union, NoFalseNegative, Present, PosSet
  <2>4. CASE UNCHANGED vars
    BY <2>4 DEF vars, NoFalseNegative, Present, PosSet
  <2> QED
    BY <2>1, <2>2, <2>3, <2>4 DEF Next
<1> QED
  BY <1>1, <1>2, PTL DEF Spec
=============================================================================
