------------------------------ MODULE HashRef ------------------------------
(* C18, reference values: TLC enumerates (key, seed) pairs and emits the FNV-1a values computed by FNV1a.tla;
   the harness compares them with probables.hashes.fnv_1a / fnv_1a_32 / default_fnv_1a on the real code.
   A key is a sequence of units 0..255 (all of them up to MaxLen, plus the extra keys given).               *)
EXTENDS FNV1a, FiniteSets, TLC, Json

CONSTANTS MaxLen, ExtraKeys, Seeds, NPARTS, PART, Mods

VARIABLES key, seed, done
vars == <<key, seed, done>>

AllKeys == UNION {[1..n -> 0..255] : n \in 0..MaxLen} \cup ExtraKeys
RECURSIVE SumSeq(_, _)
SumSeq(s, i) == IF i > Len(s) THEN 0 ELSE s[i] + SumSeq(s, i + 1)

Init == /\ key \in AllKeys /\ (NPARTS > 1 => (SumSeq(key, 1) + Len(key)) % NPARTS = PART)
        /\ seed \in Seeds /\ done = FALSE
Next == ~done /\ done' = TRUE /\ UNCHANGED <<key, seed>>
Spec == Init /\ [][Next]_vars

(* sanity of the reference itself: published test vectors of FNV-1a *)
Vectors == /\ Fnv64s(<<>>, 0) = Basis64
           /\ Fnv64s(<<97>>, 0) = <<140, 236, 1, 134, 76, 220, 99, 175>>          \* "a" -> 0xaf63dc4c8601ec8c
           /\ Fnv32s(<<97>>, 0) = <<44, 41, 12, 228>>                             \* "a" -> 0xe40c292c
           /\ Fnv64s(<<102, 111, 111, 98, 97, 114>>, 0) = <<232, 103, 57, 247, 113, 65, 148, 133>>   \* "foobar" -> 0x85944171f73967e8

Emit == PrintT(ToJson([key |-> key, seed |-> seed, h64 |-> Fnv64(key, seed), h32 |-> Fnv32(key, SubSeq(seed, 1, 4)),
                       mods |-> [i \in 1..Len(Mods) |-> ModSmall(Fnv64(key, seed), Mods[i])]]))
=============================================================================
