------------------------------ MODULE CountMin ------------------------------
(* CountMinSketch (min / mean / mean-min query), HeavyHitters, StreamThreshold.
   Properties C02, C12 (join), C13 (join rules), C14, C16, C17, C19; C05 rides.

   pos[k] = the D raw hash values of key k (input, from Tables).  Row i uses cell (pos[k][i] % W) + (i-1)*W.
   A sketch is [cells, total, tru, sat, tab, lastRet, smallest]:
     cells   : W*D counters               total : elements_added
     tru     : history oracle, true outstanding count per key (adds minus legitimate removes)
     sat     : history oracle, some counter or the total has been clamped since the last clear
     tab     : tracked table of HeavyHitters / StreamThreshold (key -> value, NoV = not tracked)
     lastRet : history oracle, estimate returned by the key's most recent add/remove (NoV = none yet)
     smallest: HeavyHitters' cached smallest tracked value (stale on purpose, as in the code)
     mode    : the query method in force ("min" / "mean" / "meanmin"): starts as the class's own (constant Mode) and is changed by the
               query_type setter, an operation of its own (<<"setq",w,m>>, m \in Modes); clear(), join and reload keep it
   Operations: <<"add",w,k,a>> <<"rem",w,k,a>> (legitimate only: a <= tru[k]) <<"clear",w>> <<"join",w>> (w := w + other) *)
EXTENDS Integers, Sequences, FiniteSets, TLC, Json

CONSTANTS Keys, W, D, Tables, Kind, Mode, CellMax, CellMin, TotMax, TotMin, Amts, NH, Thr,
          MaxTrue, MaxDepth, Whos, AllowIllegit, Channels, MaxReloads, Queries, Modes, Bad

VARIABLES pos, sk, hist, last
vars == <<pos, sk, hist, last>>

NoV == -1000000
Mn(a, b) == IF a < b THEN a ELSE b
Mxx(a, b) == IF a > b THEN a ELSE b
Clamp(v) == Mxx(CellMin, Mn(v, CellMax))
Bin(k, i) == (pos[k][i] % W) + (i - 1) * W + 1

Empty == [cells |-> [p \in 1..(W * D) |-> 0], total |-> 0, tru |-> [k \in Keys |-> 0], sat |-> FALSE,
          tab |-> <<>>, lastRet |-> [k \in Keys |-> NoV], smallest |-> 0, rl |-> 0, mode |-> Mode]

-----------------------------------------------------------------------------
(* queries over the D values of a key *)
RECURSIVE SumSeq(_, _)
SumSeq(s, i) == IF i > Len(s) THEN 0 ELSE s[i] + SumSeq(s, i + 1)
RECURSIVE InsSorted(_, _)
InsSorted(s, x) == IF s = <<>> THEN <<x>> ELSE IF x <= Head(s) THEN <<x>> \o s ELSE <<Head(s)>> \o InsSorted(Tail(s), x)
RECURSIVE SrtSeq(_, _)
SrtSeq(s, i) == IF i > Len(s) THEN <<>> ELSE InsSorted(SrtSeq(s, i + 1), s[i])
FloorDiv(a, b) == a \div b          \* TLA+ \div floors, like Python's //

Query(vals, total, mode) ==
  LET s == SrtSeq(vals, 1) IN
  CASE mode = "min" -> s[1]
    [] mode = "mean" -> FloorDiv(SumSeq(s, 1), D)
    [] mode = "meanmin" ->
         IF s[1] = 0 /\ s[D] = 0 THEN 0
         ELSE LET mm == SrtSeq([i \in 1..D |-> s[i] - FloorDiv(total - s[i], W - 1)], 1) IN
              IF D % 2 = 0 THEN FloorDiv(mm[D \div 2 + 1] + mm[D \div 2], 2) ELSE mm[D \div 2 + 1]

Vals(s, k) == [i \in 1..D |-> s.cells[Bin(k, i)]]
Est(s, k) == Query(Vals(s, k), s.total, s.mode)

-----------------------------------------------------------------------------
(* tracked tables: a Python dict, i.e. a sequence of <<key, value>> in insertion order *)
TabIdx(tab, k) == IF \E i \in 1..Len(tab) : tab[i][1] = k THEN CHOOSE i \in 1..Len(tab) : tab[i][1] = k ELSE 0
TabGet(tab, k) == IF TabIdx(tab, k) = 0 THEN NoV ELSE tab[TabIdx(tab, k)][2]
TabSet(tab, k, v) == IF TabIdx(tab, k) = 0 THEN Append(tab, <<k, v>>) ELSE [tab EXCEPT ![TabIdx(tab, k)][2] = v]
TabDel(tab, k) == LET i == TabIdx(tab, k) IN
                  IF i = 0 THEN tab ELSE SubSeq(tab, 1, i - 1) \o SubSeq(tab, i + 1, Len(tab))
Tracked(tab) == {tab[i][1] : i \in 1..Len(tab)}
MinIdx(tab) == CHOOSE i \in 1..Len(tab) :        \* min(d, key=d.get): the first smallest in insertion order
                 /\ \A j \in 1..Len(tab) : tab[i][2] <= tab[j][2]
                 /\ \A j \in 1..(i - 1) : tab[j][2] > tab[i][2]

HHUpdate(s, k, res) ==
  IF Len(s.tab) < NH THEN [s EXCEPT !.tab = TabSet(@, k, res)]
  ELSE IF TabIdx(s.tab, k) # 0 THEN [s EXCEPT !.tab = TabSet(@, k, res)]
  ELSE IF res > s.smallest
       THEN LET t1 == Append(s.tab, <<k, res>>)
                t2 == TabDel(t1, t1[MinIdx(t1)][1])
            IN [s EXCEPT !.tab = t2, !.smallest = t2[MinIdx(t2)][2]]
       ELSE s

STUpdate(s, k, res) == IF res >= Thr THEN [s EXCEPT !.tab = TabSet(@, k, res)] ELSE [s EXCEPT !.tab = TabDel(@, k)]

-----------------------------------------------------------------------------
AddS(s, k, a) ==
  LET bins == [i \in 1..D |-> Bin(k, i)]
      nv == [i \in 1..D |-> Mn(s.cells[bins[i]] + a, CellMax)]
      cells2 == [p \in 1..(W * D) |-> IF \E i \in 1..D : bins[i] = p THEN nv[CHOOSE i \in 1..D : bins[i] = p] ELSE s.cells[p]]
      tot == Mn(s.total + a, TotMax)
      res == Query(nv, tot, s.mode)
      s1 == [s EXCEPT !.cells = cells2, !.total = tot, !.tru[k] = @ + a, !.lastRet[k] = res,
                      !.sat = @ \/ s.total + a > TotMax \/ \E i \in 1..D : s.cells[bins[i]] + a > CellMax]
  IN [ret |-> res,
      outs |-> CASE Kind = "hh" -> {HHUpdate(s1, k, res)}
                 [] Kind = "st" -> {STUpdate(s1, k, res)}
                 [] OTHER -> {s1}]

RemS(s, k, a) ==
  LET bins == [i \in 1..D |-> Bin(k, i)]
      nv == [i \in 1..D |-> Mxx(s.cells[bins[i]] - a, CellMin)]
      cells2 == [p \in 1..(W * D) |-> IF \E i \in 1..D : bins[i] = p THEN nv[CHOOSE i \in 1..D : bins[i] = p] ELSE s.cells[p]]
      tot == Mxx(s.total - a, TotMin)
      res == Query(nv, tot, s.mode)
      s1 == [s EXCEPT !.cells = cells2, !.total = tot, !.tru[k] = @ - a, !.lastRet[k] = res,
                      !.sat = @ \/ s.total - a < TotMin \/ \E i \in 1..D : s.cells[bins[i]] - a < CellMin]
  IN [ret |-> res, outs |-> IF Kind = "st" THEN {STUpdate(s1, k, res)} ELSE {s1}]

JoinS(s, o) ==
  [s EXCEPT !.cells = [p \in 1..(W * D) |-> IF s.cells[p] = CellMin \/ s.cells[p] = CellMax THEN s.cells[p]
                                            ELSE Clamp(s.cells[p] + o.cells[p])],
            !.total = Mxx(TotMin, Mn(s.total + o.total, TotMax)),
            !.tru = [k \in Keys |-> s.tru[k] + o.tru[k]],
            !.sat = @ \/ o.sat \/ s.total + o.total > TotMax \/ s.total + o.total < TotMin
                      \/ \E p \in 1..(W * D) : s.cells[p] + o.cells[p] > CellMax \/ s.cells[p] + o.cells[p] < CellMin]

Other(w) == IF w = "A" THEN "B" ELSE "A"

Ops == {<<"add", w, k, a>> : w \in Whos, k \in Keys, a \in Amts}
       \cup (IF Kind # "hh" THEN {<<"rem", w, k, a>> : w \in Whos, k \in Keys, a \in Amts} ELSE {})
       \cup {<<"clear", w, "", 0>> : w \in Whos}
       \cup (IF Kind = "cms" THEN {<<"join", w, "", 0>> : w \in Whos} ELSE {})
       \cup (IF Kind = "cms" THEN {<<"rt", w, c, 0>> : w \in Whos, c \in Channels} ELSE {})   \* export + load: identity
       \cup (IF Queries THEN {<<"chk", w, k, 0>> : w \in Whos, k \in Keys} ELSE {})
       \cup {<<"setq", w, m, 0>> : w \in Whos, m \in Modes}          \* the query_type setter
       \cup {<<"bad", w, k, v>> : w \in Whos, k \in Keys, v \in Bad}
          \* a call the library REJECTS (v = 1: add_alt, 2: remove_alt with a hash list longer than the sketch is deep): it raises, the caller
          \* carries on with the same sketch - nothing was added, nothing removed
          \* a query is an ACTION that changes nothing (C19); it is in the history (used with ViewH) because the code may keep state
          \* across a query - a memo of the last answer, a cached total - that only shows in what happens afterwards

Init == /\ pos \in Tables
        /\ sk = [w \in {"A", "B"} |-> Empty]
        /\ hist = <<>> /\ last = [o |-> <<"init", "", "", 0>>, ret |-> NoV]

Do(o) == LET w == o[2]  s == sk[w] IN
         /\ CASE o[1] = "add" -> LET r == AddS(s, o[3], o[4]) IN
                                 \E n \in r.outs : sk' = [sk EXCEPT ![w] = n] /\ last' = [o |-> o, ret |-> r.ret]
              [] o[1] = "rem" -> /\ (AllowIllegit \/ o[4] <= s.tru[o[3]])
                                 /\ LET r == RemS(s, o[3], o[4]) IN
                                    \E n \in r.outs : sk' = [sk EXCEPT ![w] = n] /\ last' = [o |-> o, ret |-> r.ret]
              [] o[1] = "clear" -> sk' = [sk EXCEPT ![w] = [Empty EXCEPT !.rl = s.rl, !.mode = s.mode]] /\ last' = [o |-> o, ret |-> NoV]
              [] o[1] = "setq" -> sk' = [sk EXCEPT ![w].mode = o[3]] /\ last' = [o |-> o, ret |-> NoV]
              [] o[1] = "rt" -> /\ s.rl < MaxReloads
                                /\ sk' = [sk EXCEPT ![w].rl = @ + 1] /\ last' = [o |-> o, ret |-> NoV]
              [] o[1] = "join" -> sk' = [sk EXCEPT ![w] = JoinS(s, sk[Other(w)])] /\ last' = [o |-> o, ret |-> NoV]
              [] o[1] \in {"chk", "bad"} -> sk' = sk /\ last' = [o |-> o, ret |-> NoV]
         /\ hist' = Append(hist, o)
         /\ UNCHANGED pos

Next == \E o \in Ops : Do(o)
Spec == Init /\ [][Next]_vars
View == <<pos, sk>>
(* ViewH: no merging of states reached by different histories - the search enumerates HISTORIES (a tree) up to MaxDepth. Used on the
   smallest instances to bind the code's behaviour after clear() / reload to the model for every preceding history: the code may
   keep state the model does not have (an eviction floor, a cached table) and only the history shows it. *)
ViewH == <<pos, sk, hist>>
Bound == Len(hist) <= MaxDepth /\ \A w \in {"A", "B"} : \A k \in Keys : sk[w].tru[k] <= MaxTrue /\ sk[w].tru[k] >= 0 - MaxTrue

-----------------------------------------------------------------------------
(* properties *)
TypeOK == \A w \in {"A", "B"} : /\ \A p \in 1..(W * D) : sk[w].cells[p] \in CellMin..CellMax
                                /\ sk[w].total \in TotMin..TotMax
Isolated(k) == \A j \in Keys \ {k} : \A i \in 1..D : Bin(j, i) # Bin(k, i)
Legit(s) == \A k \in Keys : s.tru[k] >= 0
Bounds ==                                     \* C02 (min mode in force - whatever it was before -, unsaturated, legitimate history)
  \A w \in {"A", "B"} : LET s == sk[w] IN (s.mode = "min" /\ ~s.sat /\ Legit(s)) =>
     \A k \in Keys : /\ s.tru[k] <= Est(s, k) /\ Est(s, k) <= s.total
                     /\ (Isolated(k) => Est(s, k) = s.tru[k])
TotalMeaning ==                               \* C14
  \A w \in {"A", "B"} : LET s == sk[w]
                            RECURSIVE S(_) S(X) == IF X = {} THEN 0 ELSE LET k == CHOOSE y \in X : TRUE IN s.tru[k] + S(X \ {k})
                        IN ~s.sat => s.total = S(Keys)
RetIsCheck == [][ (last'.o[1] \in {"add", "rem"}) => last'.ret = Est(sk'[last'.o[2]], last'.o[3]) ]_vars    \* C02
JoinIsSum == [][ (last'.o[1] = "join" /\ ~sk'[last'.o[2]].sat) =>                                            \* C12
                   LET w == last'.o[2] IN
                   /\ \A p \in 1..(W * D) : sk'[w].cells[p] = sk[w].cells[p] + sk[Other(w)].cells[p]
                   /\ sk'[w].total = sk[w].total + sk[Other(w)].total
                   /\ sk'[Other(w)] = sk[Other(w)] ]_vars
HHConsistent ==                               \* C17
  Kind = "hh" => LET s == sk["A"]  T == Tracked(s.tab)  seen == {k \in Keys : s.lastRet[k] # NoV} IN
     /\ Cardinality(T) = Mn(NH, Cardinality(seen)) /\ Len(s.tab) = Cardinality(T)
     /\ \A k \in T : TabGet(s.tab, k) = s.lastRet[k]
     /\ (Modes = {} => \A k \in seen \ T : \A j \in T : s.lastRet[k] <= TabGet(s.tab, j))
          \* the order clause presupposes estimates that never drop for a tracked key: true for the min query under additions (the class's own
          \* mode, which C17 is about), not once the query method is switched (mean-min estimates fall as the total grows)
STConsistent ==                               \* C17
  Kind = "st" => LET s == sk["A"] IN \A k \in Keys :
     IF s.lastRet[k] # NoV /\ s.lastRet[k] >= Thr THEN TabGet(s.tab, k) = s.lastRet[k] ELSE TabGet(s.tab, k) = NoV
STNeverMissing ==                             \* C17: a key whose true count reaches the threshold is tracked
  Kind = "st" => LET s == sk["A"] IN (~s.sat /\ Legit(s)) =>
     \A k \in Keys : (s.lastRet[k] # NoV /\ s.tru[k] >= Thr /\ s.lastRet[k] >= s.tru[k]) => TabGet(s.tab, k) # NoV
SaturatedStays == [][ \A w \in {"A", "B"} : \A p \in 1..(W * D) :                                            \* C16
                        (last'.o[1] = "join" /\ last'.o[2] = w /\ (sk[w].cells[p] = CellMax \/ sk[w].cells[p] = CellMin))
                           => sk'[w].cells[p] = sk[w].cells[p] ]_vars

-----------------------------------------------------------------------------
SView(s) == [mode |-> s.mode, cells |-> s.cells, total |-> s.total, tru |-> s.tru, sat |-> s.sat, tab |-> s.tab, lastRet |-> s.lastRet,
             est |-> [k \in Keys |-> Est(s, k)], iso |-> [k \in Keys |-> Isolated(k)]]
Emit == PrintT(ToJson([pos |-> pos, h |-> hist, a |-> last'.o, ret |-> last'.ret,
                       e |-> [A |-> SView(sk'["A"]), B |-> SView(sk'["B"])]]))
=============================================================================
