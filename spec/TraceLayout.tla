---------------------------- MODULE TraceLayout ----------------------------
(* C06 (code -> spec): histories recorded from the real structures running the library's DEFAULT hash function are
   re-executed by the reference writer of Layout.tla (positions from the TLA+ FNV-1a), and after every step
     C06.writer : the bytes the library exported = the bytes the reference writer produces from the same additions
     C06.reader : for every key of the trace, the reference reader, given only the exported bytes, = the library's answer
     C06.hex    : the hex form carries the same cells and a big-endian footer
     C06.c_header : the C header (read back the way a compiler would: declarations + initialiser list) declares the geometry,
                    the count and the rate of the structure and an array that is exactly the hex form
   A trace is [id, kind, m, k, w, est, rate4, mode, bs, ms, cap, fb, qmax, keys, ev]; an event is
   [op, k (key index), a (amount / force flag), bytes, hex, ans, hdr, ch]  (hdr.on = 0: no header taken at this step; ch: the random draws a
   cuckoo insertion consumed).  Every trace gets a verdict.           *)
EXTENDS Layout, TLC, Json

Traces == JsonDeserialize("traces.json")
NT == Len(Traces)

VARIABLES tid, l, st, ptab, fails
vars == <<tid, l, st, ptab, fails>>

T == Traces[tid]
NoBits(m) == [i \in 1..m |-> 0]

(* per-trace tables computed once: positions of every key; for cuckoo the fingerprint and its two buckets *)
DecDigits(n) == LET RECURSIVE D(_) D(x) == IF x < 10 THEN <<48 + x>> ELSE D(x \div 10) \o <<48 + (x % 10)>> IN D(n)
FpInt(units, fb) == LET h == Fnv64s(units, 0)
                        v == IF fb = 8 THEN h[1] ELSE IF fb = 16 THEN h[1] + 256 * h[2] ELSE h[1] + 256 * h[2] + 65536 * h[3]
                    IN IF v = 0 THEN 1 ELSE v
PTab(t) ==
  IF t > NT THEN <<>>
  ELSE LET tr == Traces[t] IN
       [i \in 1..Len(tr.keys) |->
          IF tr.kind \in {"cko", "ccko"}
          THEN LET f == FpInt(tr.keys[i], tr.fb) IN <<f, f % tr.cap, ModSmall(Fnv64s(DecDigits(f), 0), tr.cap)>>
          ELSE Positions(tr.keys[i], tr.k, IF tr.kind = "cms" THEN tr.w ELSE tr.m)]

InitState(t) ==
  IF t > NT THEN [n |-> 0]
  ELSE LET tr == Traces[t] IN
       CASE tr.kind = "bloom" -> [bits |-> NoBits(tr.m), n |-> 0]
         [] tr.kind = "cbloom" -> [cells |-> NoBits(tr.m), n |-> 0]
         [] tr.kind = "cms" -> [cells |-> NoBits(tr.w * tr.k), n |-> 0]
         [] tr.kind \in {"ebf", "rbf"} -> [subs |-> <<[bits |-> NoBits(tr.m), n |-> 0]>>, n |-> 0]
         [] OTHER -> [buckets |-> [i \in 1..tr.cap |-> <<>>], n |-> 0]

-----------------------------------------------------------------------------
(* reference semantics of the operations, on positions *)
RECURSIVE SetAll(_, _, _)
SetAll(bits, ps, i) == IF i > Len(ps) THEN bits ELSE SetAll([bits EXCEPT ![ps[i] + 1] = 1], ps, i + 1)
RECURSIVE AddAll(_, _, _, _)
AddAll(cells, ps, a, i) == IF i > Len(ps) THEN cells ELSE AddAll([cells EXCEPT ![ps[i] + 1] = @ + a], ps, a, i + 1)
RECURSIVE AddRows(_, _, _, _, _)
AddRows(cells, ps, a, w, i) == IF i > Len(ps) THEN cells ELSE AddRows([cells EXCEPT ![ps[i] + (i - 1) * w + 1] = @ + a], ps, a, w, i + 1)
MinOf(S) == CHOOSE x \in S : \A y \in S : x <= y
InBits(bits, ps) == \A i \in 1..Len(ps) : bits[ps[i] + 1] = 1
InSubs(subs, ps) == \E i \in 1..Len(subs) : InBits(subs[i].bits, ps)

Fp4(f) == ToLimbs(f, 4)
(* evictions: the recorded draws (ch: first the side, then one slot per swap) resolve the library's random choices, so the reference
   writer follows the kick chain: the incoming element replaces the victim in the drawn slot, the victim moves to its other bucket
   (fingerprint mod capacity / hash of the fingerprint's decimal digits mod capacity) or becomes the next incoming element *)
ElFp(e) == IF Len(e) = 2 THEN e[1] ELSE e                      \* a counting bin is <<fingerprint limbs, count>>
FpVal(lm) == lm[1] + 256 * lm[2] + 65536 * lm[3]                    \* fingerprints of at most 3 bytes
RECURSIVE KickSeq(_, _, _, _, _, _, _)
KickSeq(b, idx, e, ch, j, cap, bs) ==
  IF j > Len(ch) \/ ch[j] + 1 > Len(b[idx]) THEN b            \* total: draws the model cannot follow leave the table (the bytes then differ)
  ELSE LET slot == ch[j] + 1
           victim == b[idx][slot]
           b2 == [b EXCEPT ![idx][slot] = e]
           vf == FpVal(ElFp(victim))
           i1 == (vf % cap) + 1
           i2 == ModSmall(Fnv64s(DecDigits(vf), 0), cap) + 1
           nidx == IF idx = i1 THEN i2 ELSE i1
       IN IF Len(b2[nidx]) < bs THEN [b2 EXCEPT ![nidx] = Append(@, victim)]
          ELSE KickSeq(b2, nidx, victim, ch, j + 1, cap, bs)
Kicked(b, i1, i2, e, ch, cap, bs) ==
  IF Len(ch) < 2 THEN b ELSE KickSeq(b, IF ch[1] = 0 THEN i1 ELSE i2, e, ch, 2, cap, bs)
HasFp(b, f) == \E i \in 1..Len(b) : (IF Len(b[i]) = 2 THEN b[i][1] ELSE b[i]) = Fp4(f)

Apply(s, e) ==
  LET tr == T  ps == IF e.k > 0 THEN ptab[e.k] ELSE <<>> IN
  IF e.op = "fail" THEN s ELSE      \* a call the library rejected (a full cuckoo filter that may not / cannot grow): the export is what it was
  CASE tr.kind = "bloom" ->
         (IF e.op = "add" THEN [bits |-> SetAll(s.bits, ps, 1), n |-> s.n + 1] ELSE [bits |-> NoBits(tr.m), n |-> 0])
    [] tr.kind = "cbloom" ->
         (CASE e.op = "add" -> [cells |-> AddAll(s.cells, ps, e.a, 1), n |-> s.n + e.a]
            [] e.op = "rem" -> LET mv == MinOf({s.cells[ps[i] + 1] : i \in 1..Len(ps)})  t == IF e.a < mv THEN e.a ELSE mv IN
                               IF mv = 0 THEN s ELSE [cells |-> AddAll(s.cells, ps, 0 - t, 1), n |-> s.n - t]
            [] OTHER -> [cells |-> NoBits(tr.m), n |-> 0])
    [] tr.kind = "cms" ->
         (CASE e.op = "add" -> [cells |-> AddRows(s.cells, ps, e.a, tr.w, 1), n |-> s.n + e.a]
            [] e.op = "rem" -> [cells |-> AddRows(s.cells, ps, 0 - e.a, tr.w, 1), n |-> s.n - e.a]
            [] OTHER -> [cells |-> NoBits(tr.w * tr.k), n |-> 0])
    [] tr.kind \in {"ebf", "rbf"} ->
         (CASE e.op = "add" ->
                 LET eff == e.a = 1 \/ ~InSubs(s.subs, ps)
                     last == s.subs[Len(s.subs)]
                     new == [bits |-> NoBits(tr.m), n |-> 0]
                     grown == IF tr.kind = "ebf"
                              THEN (IF last.n >= tr.est THEN Append(s.subs, new) ELSE s.subs)
                              ELSE (IF last.n = tr.est THEN (IF Len(s.subs) < tr.qmax THEN Append(s.subs, new) ELSE Append(Tail(s.subs), new))
                                    ELSE s.subs)
                 IN IF ~eff THEN [s EXCEPT !.n = @ + 1]
                    ELSE [subs |-> [grown EXCEPT ![Len(grown)] = [bits |-> SetAll(@.bits, ps, 1), n |-> @.n + 1]], n |-> s.n + 1]
            [] e.op = "push" ->
                 LET new == [bits |-> NoBits(tr.m), n |-> 0] IN
                 [s EXCEPT !.subs = IF tr.kind = "rbf" /\ Len(@) >= tr.qmax THEN Append(Tail(@), new) ELSE Append(@, new)]
            [] OTHER -> [s EXCEPT !.subs = IF Len(@) > 1 THEN Tail(@) ELSE @])      \* pop; total: a pop the model cannot take (the recorder pops when the
                                                                                    \* CODE reports more than one filter) leaves the state, the bytes then differ
    [] tr.kind = "cko" ->      \* histories without evictions only: first bucket with room
         (LET f == ps[1]  i1 == ps[2] + 1  i2 == ps[3] + 1 IN
          CASE e.op = "add" ->
                 IF HasFp(s.buckets[i1], f) \/ HasFp(s.buckets[i2], f) THEN s
                 ELSE IF Len(s.buckets[i1]) < tr.bs THEN [s EXCEPT !.buckets[i1] = Append(@, Fp4(f))]
                 ELSE IF Len(s.buckets[i2]) < tr.bs THEN [s EXCEPT !.buckets[i2] = Append(@, Fp4(f))]
                 ELSE [s EXCEPT !.buckets = Kicked(@, i1, i2, Fp4(f), e.ch, tr.cap, tr.bs)]
            [] OTHER ->
                 IF HasFp(s.buckets[i1], f) THEN [s EXCEPT !.buckets[i1] = SelectSeq(@, LAMBDA x : x # Fp4(f))]
                 ELSE [s EXCEPT !.buckets[i2] = SelectSeq(@, LAMBDA x : x # Fp4(f))])
    [] OTHER ->                \* counting cuckoo
         (LET f == ps[1]  i1 == ps[2] + 1  i2 == ps[3] + 1
              ib == IF HasFp(s.buckets[i1], f) THEN i1 ELSE IF HasFp(s.buckets[i2], f) THEN i2 ELSE 0 IN
          CASE e.op = "add" ->
                 IF ib > 0 THEN [s EXCEPT !.buckets[ib] = [jj \in 1..Len(@) |-> IF @[jj][1] = Fp4(f) THEN <<@[jj][1], @[jj][2] + 1>> ELSE @[jj]]]
                 ELSE IF Len(s.buckets[i1]) < tr.bs THEN [s EXCEPT !.buckets[i1] = Append(@, <<Fp4(f), 1>>)]
                 ELSE IF Len(s.buckets[i2]) < tr.bs THEN [s EXCEPT !.buckets[i2] = Append(@, <<Fp4(f), 1>>)]
                 ELSE [s EXCEPT !.buckets = Kicked(@, i1, i2, <<Fp4(f), 1>>, e.ch, tr.cap, tr.bs)]
            [] OTHER ->
                 IF ib = 0 THEN s
                 ELSE [s EXCEPT !.buckets[ib] = SelectSeq([jj \in 1..Len(@) |-> IF @[jj][1] = Fp4(f) THEN <<@[jj][1], @[jj][2] - 1>> ELSE @[jj]],
                                                          LAMBDA x : x[2] > 0)])

Encode(s) ==
  LET tr == T IN
  CASE tr.kind = "bloom" -> EncodeBloom(s.bits, tr.m, tr.est, s.n, tr.rate4)
    [] tr.kind = "cbloom" -> EncodeCounting(s.cells, tr.est, s.n, tr.rate4)
    [] tr.kind = "cms" -> EncodeCMS(s.cells, tr.w, tr.k, s.n)
    [] tr.kind \in {"ebf", "rbf"} -> EncodeExpanding(s.subs, tr.m, tr.est, s.n, tr.rate4)
    [] tr.kind = "cko" -> EncodeCuckoo(s.buckets, tr.bs, tr.ms)
    [] OTHER -> EncodeCountingCuckoo(s.buckets, tr.bs, tr.ms)

HexOK(s, e) ==
  LET tr == T IN
  IF tr.kind = "bloom" THEN e.hex = BitBytes(s.bits, tr.m) \o HexBloomFooter(tr.est, s.n, tr.rate4)
  ELSE IF tr.kind = "cbloom" THEN e.hex = Concat([i \in 1..Len(s.cells) |-> LE(s.cells[i], 4)], 1) \o HexBloomFooter(tr.est, s.n, tr.rate4)
  ELSE TRUE

HexRef(s) ==
  LET tr == T IN
  IF tr.kind = "bloom" THEN BitBytes(s.bits, tr.m) \o HexBloomFooter(tr.est, s.n, tr.rate4)
  ELSE Concat([i \in 1..Len(s.cells) |-> LE(s.cells[i], 4)], 1) \o HexBloomFooter(tr.est, s.n, tr.rate4)
HeaderOK(s, e) ==
  LET tr == T  h == e.hdr IN
  h.on = 0 \/ tr.kind \notin {"bloom", "cbloom"}
  \/ (h.ok = 1 /\ h.est = tr.est /\ h.n = s.n /\ h.m = tr.m /\ h.k = tr.k /\ h.rate4 = tr.rate4 /\ h.data = HexRef(s))

ReaderOK(e) ==
  LET tr == T
      want == IF tr.kind = "bloom" THEN ((tr.m + 7) \div 8) + 20 ELSE IF tr.kind = "cbloom" THEN 4 * tr.m + 20 ELSE 4 * tr.w * tr.k + 16 IN
  IF tr.kind \in {"bloom", "cbloom", "cms"} /\ (Len(e.bytes) # want \/ \E i \in 1..Len(e.bytes) : e.bytes[i] \notin 0..255 \/ Len(e.ans) # Len(tr.keys))
  THEN FALSE                  \* total: a file of another size cannot be read by the reference reader at all (and is not indexed)
  ELSE IF tr.kind = "bloom" THEN \A i \in 1..Len(tr.keys) : (IF ReadBloom(e.bytes, tr.keys[i], tr.m, tr.k) THEN 1 ELSE 0) = e.ans[i]
  ELSE IF tr.kind = "cbloom" THEN \A i \in 1..Len(tr.keys) : ReadCounting(e.bytes, tr.keys[i], tr.m, tr.k) = e.ans[i]
  ELSE IF tr.kind = "cms" THEN \A i \in 1..Len(tr.keys) : LET r == ReadCMS(e.bytes, tr.keys[i], tr.w, tr.k, tr.mode) IN
                                                                r = NotComparable \/ r = e.ans[i]
  ELSE TRUE

Init == tid = 1 /\ l = 1 /\ st = InitState(1) /\ ptab = PTab(1) /\ fails = {}

Step == /\ tid <= NT /\ l <= Len(T.ev)
        /\ LET e == T.ev[l]  s2 == Apply(st, e) IN
           /\ st' = s2
           /\ fails' = fails \cup (IF Encode(s2) # e.bytes THEN {<<"C06.writer", l>>} ELSE {})
                             \cup (IF ~ReaderOK(e) THEN {<<"C06.reader", l>>} ELSE {})
                             \cup (IF ~HexOK(s2, e) THEN {<<"C06.hex", l>>} ELSE {})
                             \cup (IF ~HeaderOK(s2, e) THEN {<<"C06.c_header", l>>} ELSE {})
        /\ l' = l + 1 /\ UNCHANGED <<tid, ptab>>

NextTrace == /\ tid <= NT /\ l > Len(T.ev)
             /\ PrintT(ToJson([verdict |-> T.id, n |-> Len(T.ev), fails |-> fails]))
             /\ tid' = tid + 1 /\ l' = 1 /\ st' = InitState(tid + 1) /\ ptab' = PTab(tid + 1) /\ fails' = {}

Next == Step \/ NextTrace
Spec == Init /\ [][Next]_vars
=============================================================================
