---------------------------- MODULE TraceLayout ----------------------------
(* C06 (code -> spec): histories recorded from the real structures running the library's DEFAULT hash function are
   re-executed by the reference writer of Layout.tla (positions from the TLA+ FNV-1a), and after every step
     C06.writer : the bytes the library exported = the bytes the reference writer produces from the same additions
     C06.reader : for every key of the trace, the reference reader, given only the exported bytes, = the library's answer
     C06.hex    : the hex form carries the same cells and a big-endian footer
     C06.c_header : the C header (read back the way a compiler would: declarations + initialiser list) declares the geometry,
                    the count and the rate of the structure and an array that is exactly the hex form
   A trace is [id, kind, m, k, w, est, rate4, mode, bs, ms, cap, fb, qmax, keys, ev]; an event is
   [op, k (key index), a (amount / force flag), bytes, hex, ans, hdr]  (hdr.on = 0: no header taken at this step).  Every trace gets a verdict.           *)
EXTENDS Layout, TLC, Json

Traces == JsonDeserialize("traces.json")
NT == Len(Traces)

VARIABLES tid, l, st, ptab, fails
vars == <<tid, l, st, ptab, fails>>

T == Traces[tid]
NoBits(m) == [i \in 1..m |-> 0]

(* per-trace tables computed once: positions of every key; for cuckoo the fingerprint and its two buckets *)
DecDigits(n) == LET RECURSIVE D(_) D(x) == IF x < 10 THEN <<48 + x>> ELSE D(x \div 10) \o <<48 + (x % 10)>> IN D(n)
FpInt(units, fb) == LET h == Fnv64s(units, 0)
                        v == IF fb = 8 THEN h[1] ELSE IF fb = 16 THEN h[1] + 256 * h[2] ELSE h[1] + 256 * h[2] + 65536 * h[3]
                    IN IF v = 0 THEN 1 ELSE v
PTab(t) ==
  IF t > NT THEN <<>>
  ELSE LET tr == Traces[t] IN
       [i \in 1..Len(tr.keys) |->
          IF tr.kind \in {"cko", "ccko"}
          THEN LET f == FpInt(tr.keys[i], tr.fb) IN <<f, Fnv64s(DecDigits(f), 0)>>      \* fingerprint, hash of its decimal digits (alternate bucket = that mod capacity)
          ELSE Positions(tr.keys[i], tr.k, IF tr.kind = "cms" THEN tr.w ELSE tr.m)]

InitState(t) ==
  IF t > NT THEN [n |-> 0]
  ELSE LET tr == Traces[t] IN
       CASE tr.kind = "bloom" -> [bits |-> NoBits(tr.m), n |-> 0]
         [] tr.kind = "cbloom" -> [cells |-> NoBits(tr.m), n |-> 0]
         [] tr.kind = "cms" -> [cells |-> NoBits(tr.w * tr.k), n |-> 0]
         [] tr.kind \in {"ebf", "rbf"} -> [subs |-> <<[bits |-> NoBits(tr.m), n |-> 0]>>, n |-> 0]
         [] OTHER -> [ents |-> {}, n |-> 0]      \* cuckoo: the stored <<fingerprint, count>> pairs; WHERE each sits is the library's (random) choice

-----------------------------------------------------------------------------
(* reference semantics of the operations, on positions *)
RECURSIVE SetAll(_, _, _)
SetAll(bits, ps, i) == IF i > Len(ps) THEN bits ELSE SetAll([bits EXCEPT ![ps[i] + 1] = 1], ps, i + 1)
RECURSIVE AddAll(_, _, _, _)
AddAll(cells, ps, a, i) == IF i > Len(ps) THEN cells ELSE AddAll([cells EXCEPT ![ps[i] + 1] = @ + a], ps, a, i + 1)
RECURSIVE AddRows(_, _, _, _, _)
AddRows(cells, ps, a, w, i) == IF i > Len(ps) THEN cells ELSE AddRows([cells EXCEPT ![ps[i] + (i - 1) * w + 1] = @ + a], ps, a, w, i + 1)
MinOf(S) == CHOOSE x \in S : \A y \in S : x <= y
InBits(bits, ps) == \A i \in 1..Len(ps) : bits[ps[i] + 1] = 1
InSubs(subs, ps) == \E i \in 1..Len(subs) : InBits(subs[i].bits, ps)

Fp4(f) == ToLimbs(f, 4)
CntOf(ents, f) == IF \E x \in ents : x[1] = Fp4(f) THEN (CHOOSE x \in ents : x[1] = Fp4(f))[2] ELSE 0
SetCnt(ents, f, c) == {x \in ents : x[1] # Fp4(f)} \cup (IF c > 0 THEN {<<Fp4(f), c>>} ELSE {})

Apply(s, e) ==
  LET tr == T  ps == IF e.k > 0 THEN ptab[e.k] ELSE <<>> IN
  IF e.op = "fail" THEN s ELSE      \* a call the library rejected (a full cuckoo filter that may not / cannot grow): the export is what it was
  CASE tr.kind = "bloom" ->
         (IF e.op = "add" THEN [bits |-> SetAll(s.bits, ps, 1), n |-> s.n + 1] ELSE [bits |-> NoBits(tr.m), n |-> 0])
    [] tr.kind = "cbloom" ->
         (CASE e.op = "add" -> [cells |-> AddAll(s.cells, ps, e.a, 1), n |-> s.n + e.a]
            [] e.op = "rem" -> LET mv == MinOf({s.cells[ps[i] + 1] : i \in 1..Len(ps)})  t == IF e.a < mv THEN e.a ELSE mv IN
                               IF mv = 0 THEN s ELSE [cells |-> AddAll(s.cells, ps, 0 - t, 1), n |-> s.n - t]
            [] OTHER -> [cells |-> NoBits(tr.m), n |-> 0])
    [] tr.kind = "cms" ->
         (CASE e.op = "add" -> [cells |-> AddRows(s.cells, ps, e.a, tr.w, 1), n |-> s.n + e.a]
            [] e.op = "rem" -> [cells |-> AddRows(s.cells, ps, 0 - e.a, tr.w, 1), n |-> s.n - e.a]
            [] OTHER -> [cells |-> NoBits(tr.w * tr.k), n |-> 0])
    [] tr.kind \in {"ebf", "rbf"} ->
         (CASE e.op = "add" ->
                 LET eff == e.a = 1 \/ ~InSubs(s.subs, ps)
                     last == s.subs[Len(s.subs)]
                     new == [bits |-> NoBits(tr.m), n |-> 0]
                     grown == IF tr.kind = "ebf"
                              THEN (IF last.n >= tr.est THEN Append(s.subs, new) ELSE s.subs)
                              ELSE (IF last.n = tr.est THEN (IF Len(s.subs) < tr.qmax THEN Append(s.subs, new) ELSE Append(Tail(s.subs), new))
                                    ELSE s.subs)
                 IN IF ~eff THEN [s EXCEPT !.n = @ + 1]
                    ELSE [subs |-> [grown EXCEPT ![Len(grown)] = [bits |-> SetAll(@.bits, ps, 1), n |-> @.n + 1]], n |-> s.n + 1]
            [] e.op = "push" ->
                 LET new == [bits |-> NoBits(tr.m), n |-> 0] IN
                 [s EXCEPT !.subs = IF tr.kind = "rbf" /\ Len(@) >= tr.qmax THEN Append(Tail(@), new) ELSE Append(@, new)]
            [] OTHER -> [s EXCEPT !.subs = IF Len(@) > 1 THEN Tail(@) ELSE @])      \* pop; total: a pop the model cannot take (the recorder pops when the
                                                                                    \* CODE reports more than one filter) leaves the state, the bytes then differ
    [] tr.kind = "cko" ->      \* a set of fingerprints: adding a stored one changes nothing
         (LET f == ps[1] IN
          IF e.op = "add" THEN [s EXCEPT !.ents = SetCnt(@, f, 1)] ELSE [s EXCEPT !.ents = SetCnt(@, f, 0)])
    [] OTHER ->                \* counting cuckoo: a bag
         (LET f == ps[1]  c == CntOf(s.ents, f) IN
          IF e.op = "add" THEN [s EXCEPT !.ents = SetCnt(@, f, c + 1)] ELSE [s EXCEPT !.ents = SetCnt(@, f, IF c > 0 THEN c - 1 ELSE 0)])

(* cuckoo exports: WHERE a fingerprint sits (which of its two buckets, which slot) is decided by the library's random evictions and is not
   part of the documented layout, so the reference does not predict the table: it READS the export back and requires that it is a
   well-formed table - whole buckets of bucket_size 32-bit slots (fingerprint, or fingerprint + count), footer bucket_size / max_swaps,
   0 = empty - holding exactly the fingerprints (and counts) the history gives, each once, each in one of the two buckets the documented
   hashing rule gives it for the capacity the export has *)
CkW == IF T.kind = "cko" THEN 4 ELSE 8
CkCap(b) == (Len(b) - 8) \div (T.bs * CkW)
CkSlot(b, i, jj) == LET off == ((i - 1) * T.bs + (jj - 1)) * CkW IN
                    <<SubSeq(b, off + 1, off + 4), IF CkW = 8 THEN U32(b, off + 4) ELSE 1>>
CkHome(fp4, cap) ==      \* the two buckets (0-based) of a fingerprint that belongs to a key of the trace; {} for a foreign one
  LET ks == {i \in 1..Len(ptab) : Fp4(ptab[i][1]) = fp4} IN
  IF ks = {} THEN {} ELSE LET i == CHOOSE x \in ks : TRUE IN {ptab[i][1] % cap, ModSmall(ptab[i][2], cap)}
CuckooOK(b, ents) ==
  /\ Len(b) >= 8 + T.bs * CkW /\ (Len(b) - 8) % (T.bs * CkW) = 0
  /\ \A i \in 1..Len(b) : b[i] \in 0..255
  /\ SubSeq(b, Len(b) - 7, Len(b)) = LE(T.bs, 4) \o LE(T.ms, 4)
  /\ LET cap == CkCap(b)
         used == {<<i, jj>> \in (1..cap) \X (1..T.bs) : CkSlot(b, i, jj)[1] # <<0, 0, 0, 0>>}
     IN /\ Cardinality(used) = Cardinality(ents)                                       \* each stored once
        /\ {CkSlot(b, x[1], x[2]) : x \in used} = ents                                \* exactly the history's fingerprints (and counts)
        /\ \A x \in used : (x[1] - 1) \in CkHome(CkSlot(b, x[1], x[2])[1], cap)        \* in one of its two buckets
        /\ (CkW = 8 => \A i \in 1..cap : \A jj \in 1..T.bs :                            \* an empty bin has no count
                        CkSlot(b, i, jj)[1] = <<0, 0, 0, 0>> => CkSlot(b, i, jj)[2] = 0)

Encode(s) ==
  LET tr == T IN
  CASE tr.kind = "bloom" -> EncodeBloom(s.bits, tr.m, tr.est, s.n, tr.rate4)
    [] tr.kind = "cbloom" -> EncodeCounting(s.cells, tr.est, s.n, tr.rate4)
    [] tr.kind = "cms" -> EncodeCMS(s.cells, tr.w, tr.k, s.n)
    [] tr.kind \in {"ebf", "rbf"} -> EncodeExpanding(s.subs, tr.m, tr.est, s.n, tr.rate4)
    [] OTHER -> <<>>      \* cuckoo: see CuckooOK

HexOK(s, e) ==
  LET tr == T IN
  IF tr.kind = "bloom" THEN e.hex = BitBytes(s.bits, tr.m) \o HexBloomFooter(tr.est, s.n, tr.rate4)
  ELSE IF tr.kind = "cbloom" THEN e.hex = Concat([i \in 1..Len(s.cells) |-> LE(s.cells[i], 4)], 1) \o HexBloomFooter(tr.est, s.n, tr.rate4)
  ELSE TRUE

HexRef(s) ==
  LET tr == T IN
  IF tr.kind = "bloom" THEN BitBytes(s.bits, tr.m) \o HexBloomFooter(tr.est, s.n, tr.rate4)
  ELSE Concat([i \in 1..Len(s.cells) |-> LE(s.cells[i], 4)], 1) \o HexBloomFooter(tr.est, s.n, tr.rate4)
HeaderOK(s, e) ==
  LET tr == T  h == e.hdr IN
  h.on = 0 \/ tr.kind \notin {"bloom", "cbloom"}
  \/ (h.ok = 1 /\ h.est = tr.est /\ h.n = s.n /\ h.m = tr.m /\ h.k = tr.k /\ h.rate4 = tr.rate4 /\ h.data = HexRef(s))

ReaderOK(e) ==
  LET tr == T
      want == IF tr.kind = "bloom" THEN ((tr.m + 7) \div 8) + 20 ELSE IF tr.kind = "cbloom" THEN 4 * tr.m + 20 ELSE 4 * tr.w * tr.k + 16 IN
  IF tr.kind \in {"bloom", "cbloom", "cms"} /\ (Len(e.bytes) # want \/ \E i \in 1..Len(e.bytes) : e.bytes[i] \notin 0..255 \/ Len(e.ans) # Len(tr.keys))
  THEN FALSE                  \* total: a file of another size cannot be read by the reference reader at all (and is not indexed)
  ELSE IF tr.kind = "bloom" THEN \A i \in 1..Len(tr.keys) : (IF ReadBloom(e.bytes, tr.keys[i], tr.m, tr.k) THEN 1 ELSE 0) = e.ans[i]
  ELSE IF tr.kind = "cbloom" THEN \A i \in 1..Len(tr.keys) : ReadCounting(e.bytes, tr.keys[i], tr.m, tr.k) = e.ans[i]
  ELSE IF tr.kind = "cms" THEN \A i \in 1..Len(tr.keys) : LET r == ReadCMS(e.bytes, tr.keys[i], tr.w, tr.k, tr.mode) IN
                                                                r = NotComparable \/ r = e.ans[i]
  ELSE TRUE

Init == tid = 1 /\ l = 1 /\ st = InitState(1) /\ ptab = PTab(1) /\ fails = {}

Step == /\ tid <= NT /\ l <= Len(T.ev)
        /\ LET e == T.ev[l]  s2 == Apply(st, e) IN
           /\ st' = s2
           /\ fails' = fails \cup (IF (IF T.kind \in {"cko", "ccko"} THEN ~CuckooOK(e.bytes, s2.ents) ELSE Encode(s2) # e.bytes)
                                   THEN {<<"C06.writer", l>>} ELSE {})
                             \cup (IF ~ReaderOK(e) THEN {<<"C06.reader", l>>} ELSE {})
                             \cup (IF ~HexOK(s2, e) THEN {<<"C06.hex", l>>} ELSE {})
                             \cup (IF ~HeaderOK(s2, e) THEN {<<"C06.c_header", l>>} ELSE {})
        /\ l' = l + 1 /\ UNCHANGED <<tid, ptab>>

NextTrace == /\ tid <= NT /\ l > Len(T.ev)
             /\ PrintT(ToJson([verdict |-> T.id, n |-> Len(T.ev), fails |-> fails]))
             /\ tid' = tid + 1 /\ l' = 1 /\ st' = InitState(tid + 1) /\ ptab' = PTab(tid + 1) /\ fails' = {}

Next == Step \/ NextTrace
Spec == Init /\ [][Next]_vars
=============================================================================
