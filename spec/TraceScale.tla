----------------------------- MODULE TraceScale -----------------------------
(* Code -> spec at REALISTIC SCALE: long histories recorded from structures of hundreds to thousands of cells, many real
   string / bytes keys, the library's own hash functions, several growth / resize / rotation events.  The abstract state is
   sparse (sets of set positions, sparse counter maps, a set of 32-bit hashes), so TLC replays thousands of events per second.
   pos[k] is what the structure's hash function yielded for key k (recorded once per key by calling that function),
   already reduced modulo the structure's size where the structure reduces it.
   A trace: [id, kind, m, k, w, d, est, qmax, q, auto, pos, ev]; an event: [op, k, a, ret, n, probes, full, aux].
     probes : sequence of <<key index, answer of the real structure>> taken right after the operation
     full   : (every few events) the complete observable state, for exact comparison
   One verdict per trace; clause names carry the property they belong to.                                            *)
EXTENDS Integers, Sequences, FiniteSets, TLC, Json

Traces == JsonDeserialize("traces.json")
NT == Len(Traces)

VARIABLES tid, l, st, fails
vars == <<tid, l, st, fails>>
T == Traces[tid]

Get(f, p) == IF p \in DOMAIN f THEN f[p] ELSE 0
Put(f, p, v) == [x \in (DOMAIN f) \cup {p} |-> IF x = p THEN v ELSE f[x]]
PosSet(k) == {T.pos[k][i] : i \in 1..Len(T.pos[k])}
MinOf(S) == CHOOSE x \in S : \A y \in S : x <= y
RECURSIVE P2(_)
P2(n) == IF n = 0 THEN 1 ELSE 2 * P2(n - 1)

NewSub == [bits |-> {}, n |-> 0]
InitState(t) ==
  IF t > NT THEN [n |-> 0]
  ELSE LET tr == Traces[t] IN
       CASE tr.kind \in {"bloom", "disk"} -> [bits |-> {}, n |-> 0, out |-> [i \in 1..Len(tr.pos) |-> 0]]
         [] tr.kind \in {"cbloom", "cms"} -> [c |-> <<>>, n |-> 0, out |-> [i \in 1..Len(tr.pos) |-> 0]]
         [] tr.kind \in {"ebf", "rbf"} -> [subs |-> <<NewSub>>, n |-> 0, eff |-> 0, manual |-> FALSE,
                                           ins |-> [i \in 1..Len(tr.pos) |-> 0], man |-> [i \in 1..Len(tr.pos) |-> FALSE]]
         [] OTHER -> [S |-> {}, q |-> tr.q, n |-> 0]

-----------------------------------------------------------------------------
RECURSIVE AddSeq(_, _, _, _)
AddSeq(c, ps, a, i) == IF i > Len(ps) THEN c ELSE AddSeq(Put(c, ps[i], Get(c, ps[i]) + a), ps, a, i + 1)
CellsOf(c, ps) == {Get(c, ps[i]) : i \in 1..Len(ps)}
InSub(s, k) == PosSet(k) \subseteq s.bits
InSubs(ss, k) == \E i \in 1..Len(ss) : InSub(ss[i], k)

Grow(ss) ==
  LET last == ss[Len(ss)] IN
  IF T.kind = "ebf" THEN (IF last.n >= T.est THEN Append(ss, NewSub) ELSE ss)
  ELSE IF last.n = T.est THEN (IF Len(ss) < T.qmax THEN Append(ss, NewSub) ELSE Append(Tail(ss), NewSub)) ELSE ss

RECURSIVE FinalQ(_, _)
FinalQ(qq, cnt) == IF T.auto /\ cnt >= 1 /\ 100 * (cnt - 1) >= 85 * P2(qq) THEN FinalQ(qq + 1, cnt) ELSE qq

Apply(s, e) ==
  LET ps == IF e.k > 0 THEN T.pos[e.k] ELSE <<>> IN
  CASE T.kind \in {"bloom", "disk"} ->
         (CASE e.op = "add" -> [s EXCEPT !.bits = @ \cup PosSet(e.k), !.n = @ + 1, !.out[e.k] = @ + 1]
            [] e.op = "clear" -> [bits |-> {}, n |-> 0, out |-> [i \in 1..Len(T.pos) |-> 0]]
            [] OTHER -> s)                                    \* reload / reopen / union with itself: identity
    [] T.kind = "cbloom" ->
         (CASE e.op = "add" -> [s EXCEPT !.c = AddSeq(@, ps, e.a, 1), !.n = @ + e.a, !.out[e.k] = @ + e.a]
            [] e.op = "rem" -> LET mv == MinOf(CellsOf(s.c, ps))  t == IF e.a < mv THEN e.a ELSE mv IN
                               IF mv = 0 THEN s ELSE [s EXCEPT !.c = AddSeq(@, ps, 0 - t, 1), !.n = @ - t, !.out[e.k] = IF @ >= t THEN @ - t ELSE 0]
            [] e.op = "clear" -> [c |-> <<>>, n |-> 0, out |-> [i \in 1..Len(T.pos) |-> 0]]
            [] OTHER -> s)
    [] T.kind = "cms" ->
         (CASE e.op = "add" -> [s EXCEPT !.c = AddSeq(@, ps, e.a, 1), !.n = @ + e.a, !.out[e.k] = @ + e.a]
            [] e.op = "rem" -> [s EXCEPT !.c = AddSeq(@, ps, 0 - e.a, 1), !.n = @ - e.a, !.out[e.k] = @ - e.a]
            [] e.op = "clear" -> [c |-> <<>>, n |-> 0, out |-> [i \in 1..Len(T.pos) |-> 0]]
            [] OTHER -> s)
    [] T.kind \in {"ebf", "rbf"} ->
         (CASE e.op = "add" ->
                 LET was == InSubs(s.subs, e.k)  effv == e.a = 1 \/ ~was
                     g == Grow(s.subs) IN
                 [s EXCEPT !.n = @ + 1,
                           !.subs = IF effv THEN [g EXCEPT ![Len(g)] = [bits |-> @.bits \cup PosSet(e.k), n |-> @.n + 1]] ELSE @,
                           !.eff = IF effv THEN @ + 1 ELSE @,
                           !.ins[e.k] = IF ~was THEN s.eff + 1 ELSE @,
                           !.man[e.k] = IF ~was THEN FALSE ELSE @]
            [] e.op = "push" ->
                 [s EXCEPT !.subs = IF T.kind = "rbf" /\ Len(@) >= T.qmax THEN Append(Tail(@), NewSub) ELSE Append(@, NewSub),
                           !.manual = TRUE, !.man = [i \in 1..Len(T.pos) |-> TRUE]]
            [] e.op = "pop" -> [s EXCEPT !.subs = Tail(@), !.manual = TRUE, !.man = [i \in 1..Len(T.pos) |-> TRUE]]
            [] OTHER -> s)
    [] OTHER ->                                               \* quotient filter: h = <<hi, lo>>
         (LET h == IF e.k > 0 THEN <<ps[1], ps[2]>> ELSE <<0, 0>> IN
          CASE e.op = "add" ->
                 LET g == IF T.auto /\ 100 * s.n >= 85 * P2(s.q) THEN s.q + 1 ELSE s.q IN
                 IF h \in s.S THEN [s EXCEPT !.q = g] ELSE [S |-> s.S \cup {h}, q |-> g, n |-> s.n + 1]
            [] e.op = "rem" -> IF h \in s.S THEN [s EXCEPT !.S = @ \ {h}, !.n = @ - 1] ELSE s
            [] e.op = "rsz" -> [s EXCEPT !.q = FinalQ(e.a, s.n)]
            [] OTHER -> s)

-----------------------------------------------------------------------------
Answer(s, k) ==
  CASE T.kind \in {"bloom", "disk"} -> IF PosSet(k) \subseteq s.bits THEN 1 ELSE 0
    [] T.kind \in {"cbloom", "cms"} -> MinOf(CellsOf(s.c, T.pos[k]))
    [] T.kind \in {"ebf", "rbf"} -> IF InSubs(s.subs, k) THEN 1 ELSE 0
    [] OTHER -> IF <<T.pos[k][1], T.pos[k][2]>> \in s.S THEN 1 ELSE 0

FullOK(s, e) ==
  CASE T.kind \in {"bloom", "disk"} -> {e.full[i] : i \in 1..Len(e.full)} = s.bits
    [] T.kind \in {"cbloom", "cms"} -> /\ \A i \in 1..Len(e.full) : Get(s.c, e.full[i][1]) = e.full[i][2]
                                       /\ \A p \in DOMAIN s.c : s.c[p] # 0 => \E i \in 1..Len(e.full) : e.full[i][1] = p
    [] T.kind \in {"ebf", "rbf"} -> /\ Len(e.full) = Len(s.subs)
                                    /\ \A i \in 1..Len(e.full) : /\ e.full[i].n = s.subs[i].n
                                                                 /\ {e.full[i].bits[j] : j \in 1..Len(e.full[i].bits)} = s.subs[i].bits
    [] OTHER -> /\ Len(e.full) = Cardinality(s.S)                       \* hashes(): exactly the set, no duplicates
                /\ {<<e.full[i][1], e.full[i][2]>> : i \in 1..Len(e.full)} = s.S

Bad(s, e) ==     \* s = model state after the event
  LET pr == e.probes
      kind == T.kind
      presentKeys == {i \in 1..Len(pr) : pr[i][1] > 0}
  IN
  (IF e.n # s.n THEN {IF kind = "qf" THEN "C04.count" ELSE "C14.count." \o kind} ELSE {})
  \cup (IF kind \in {"bloom", "disk", "ebf"} /\ \E i \in presentKeys : (IF kind = "ebf" THEN s.ins[pr[i][1]] > 0 ELSE s.out[pr[i][1]] > 0) /\ pr[i][2] = 0
        THEN {"C01.present." \o kind} ELSE {})
  \cup (IF kind = "cbloom" /\ \E i \in presentKeys : pr[i][2] < s.out[pr[i][1]] THEN {"C08.cb_lower"} ELSE {})
  \cup (IF kind = "cms" /\ \E i \in presentKeys : (\A j \in 1..Len(s.out) : s.out[j] >= 0) /\ (pr[i][2] < s.out[pr[i][1]] \/ pr[i][2] > s.n)
        THEN {"C02.bounds"} ELSE {})
  \cup (IF kind = "cms" /\ e.op \in {"add", "rem"} /\ e.ret # Answer(s, e.k) THEN {"C02.ret_eq_check"} ELSE {})
  \cup (IF kind = "qf" /\ \E i \in presentKeys : pr[i][2] # Answer(s, pr[i][1]) THEN {"C04.member"} ELSE {})
  \cup (IF kind = "qf" /\ Len(e.full) > 0 /\ ~FullOK(s, e) THEN {"C04.hashes"} ELSE {})
  \cup (IF kind \in {"ebf", "rbf"} /\ \E i \in 1..Len(s.subs) : e.aux.ns[i] > T.est THEN {IF kind = "ebf" THEN "C09.cap" ELSE "C10.cap"} ELSE {})
  \cup (IF kind = "ebf" /\ ~s.manual /\ Len(e.aux.ns) - 1 # (IF s.eff = 0 THEN 0 ELSE ((s.eff + T.est - 1) \div T.est) - 1) THEN {"C09.growth"} ELSE {})
  \cup (IF kind = "rbf" /\ (Len(e.aux.ns) < 1 \/ Len(e.aux.ns) > T.qmax) THEN {"C10.bounds"} ELSE {})
  \cup (IF kind = "rbf" /\ \E i \in presentKeys : LET k == pr[i][1] IN
            s.ins[k] > 0 /\ ~s.man[k] /\ s.eff - s.ins[k] < (T.qmax - 1) * T.est /\ pr[i][2] = 0 THEN {"C10.window"} ELSE {})
  \cup (IF kind # "qf" /\ \E i \in presentKeys : pr[i][2] # Answer(s, pr[i][1]) THEN {"DRIFT.answer"} ELSE {})
  \cup (IF kind # "qf" /\ Len(e.full) > 0 /\ ~FullOK(s, e) THEN {"DRIFT.state"} ELSE {})
  \cup (IF kind = "qf" /\ e.aux.q # s.q THEN {"DRIFT.q"} ELSE {})

Init == tid = 1 /\ l = 1 /\ st = InitState(1) /\ fails = {}
Step == /\ tid <= NT /\ l <= Len(T.ev)
        /\ LET e == T.ev[l]  s2 == Apply(st, e) IN
           /\ st' = s2
           /\ fails' = fails \cup {<<c, l>> : c \in Bad(s2, e) \ {x[1] : x \in fails}}      \* first occurrence of each clause
        /\ l' = l + 1 /\ tid' = tid
NextTrace == /\ tid <= NT /\ l > Len(T.ev)
             /\ PrintT(ToJson([verdict |-> T.id, n |-> Len(T.ev), fails |-> fails]))
             /\ tid' = tid + 1 /\ l' = 1 /\ st' = InitState(tid + 1) /\ fails' = {}
Next == Step \/ NextTrace
Spec == Init /\ [][Next]_vars
=============================================================================
