----------------------------- MODULE TraceScale -----------------------------
(* Code -> spec at REALISTIC SCALE: long histories recorded from structures of hundreds up to ~10^6 cells, thousands of real
   string / bytes keys, the library's own hash functions, several growth / resize / rotation / expansion events, reloads and
   unions.  The abstract state is sparse (sets of set positions, bags of counters, a set of 32-bit hashes, a bag of outstanding
   additions), and additions may come in batches, so TLC replays tens of thousands of additions in seconds.
   pos[k] is what the structure's hash function yielded for key k (recorded once per key by calling that function), already
   reduced modulo the structure's size where the structure reduces it (cuckoo: the key's fingerprint class).
   A trace: [id, kind, m, k, w, d, est, qmax, q, auto, pos, ev];
   an event: [op, ks, a, ret, n, probes, full, aux]   with ks = sequence of <<key index, amount>> (one element for a single call)
     probes : sequence of <<key index, answer of the real structure>> taken right after the operation
     full   : (now and then) the complete observable state, for exact comparison
   One verdict per trace; clause names carry the property they belong to (DRIFT.* = conformance only).                      *)
EXTENDS Integers, Sequences, FiniteSets, Bags, TLC, Json

Traces == JsonDeserialize("traces.json")
NT == Len(Traces)

VARIABLES tid, l, st, fails
vars == <<tid, l, st, fails>>
T == Traces[tid]

Cnt(b, x) == IF x \in DOMAIN b THEN b[x] ELSE 0
PosSet(k) == {T.pos[k][i] : i \in 1..Len(T.pos[k])}
MinOf(S) == CHOOSE x \in S : \A y \in S : x <= y
RECURSIVE P2(_)
P2(n) == IF n = 0 THEN 1 ELSE 2 * P2(n - 1)

(* bag of the cells of one key, each occurrence weighted by a (coinciding positions count twice) *)
RECURSIVE KeyBag(_, _, _)
KeyBag(ps, a, i) == IF i > Len(ps) THEN EmptyBag ELSE (ps[i] :> a) (+) KeyBag(ps, a, i + 1)
(* balanced folds over a batch <<k, a>>, ... : cells touched, and keys touched *)
RECURSIVE CellBag(_, _, _)
CellBag(ks, lo, hi) == IF lo > hi THEN EmptyBag
                       ELSE IF lo = hi THEN KeyBag(T.pos[ks[lo][1]], ks[lo][2], 1)
                       ELSE LET mid == (lo + hi) \div 2 IN CellBag(ks, lo, mid) (+) CellBag(ks, mid + 1, hi)
RECURSIVE KeysBag(_, _, _)
KeysBag(ks, lo, hi) == IF lo > hi THEN EmptyBag
                       ELSE IF lo = hi THEN (ks[lo][1] :> ks[lo][2])
                       ELSE LET mid == (lo + hi) \div 2 IN KeysBag(ks, lo, mid) (+) KeysBag(ks, mid + 1, hi)
AllPos(ks) == UNION {PosSet(ks[i][1]) : i \in 1..Len(ks)}

NewSub == [bits |-> {}, n |-> 0]
InitState(t) ==
  IF t > NT THEN [n |-> 0]
  ELSE LET tr == Traces[t] IN
       CASE tr.kind \in {"bloom", "disk"} -> [bits |-> {}, n |-> 0, out |-> EmptyBag]
         [] tr.kind \in {"cbloom", "cms"} -> [c |-> EmptyBag, n |-> 0, out |-> EmptyBag]
         [] tr.kind \in {"ebf", "rbf"} -> [subs |-> <<NewSub>>, n |-> 0, eff |-> 0, manual |-> FALSE, ins |-> EmptyBag, man |-> {}]
         [] tr.kind \in {"cko", "ccko"} -> [out |-> EmptyBag, n |-> 0]
         [] tr.kind \in {"hh", "st"} -> [last |-> EmptyBag, n |-> 0]            \* last[k] = estimate returned by k's most recent add / remove
         [] tr.kind = "bits" -> [bits |-> {}, n |-> 0]                          \* Bitarray: set of positions holding 1
         [] OTHER -> [S |-> {}, q |-> tr.q, n |-> 0, lf |-> 8500]            \* lf: max_load_factor in 1/10000 (the code: 0.85; a resize puts it back)

-----------------------------------------------------------------------------
InSub(s, k) == PosSet(k) \subseteq s.bits
InSubs(ss, k) == \E i \in 1..Len(ss) : InSub(ss[i], k)
Grow(ss) ==
  LET last == ss[Len(ss)] IN
  IF T.kind = "ebf" THEN (IF last.n >= T.est THEN Append(ss, NewSub) ELSE ss)
  ELSE IF last.n = T.est THEN (IF Len(ss) < T.qmax THEN Append(ss, NewSub) ELSE Append(Tail(ss), NewSub)) ELSE ss

(* expanding / rotating: one add *)
EbfAdd(s, k, force) ==
  LET was == InSubs(s.subs, k)  effv == force = 1 \/ ~was  g == Grow(s.subs) IN
  [s EXCEPT !.n = @ + 1,
            !.subs = IF effv THEN [g EXCEPT ![Len(g)] = [bits |-> @.bits \cup PosSet(k), n |-> @.n + 1]] ELSE @,
            !.eff = IF effv THEN @ + 1 ELSE @,
            !.ins = IF ~was THEN [x \in (DOMAIN @) \cup {k} |-> IF x = k THEN s.eff + 1 ELSE @[x]] ELSE @,
            !.man = IF ~was THEN @ \ {k} ELSE @]
RECURSIVE EbfFold(_, _, _)
EbfFold(s, ks, i) == IF i > Len(ks) THEN s ELSE EbfFold(EbfAdd(s, ks[i][1], ks[i][2]), ks, i + 1)

(* quotient filter: hash <<hi, lo>> *)
H(k) == <<T.pos[k][1], T.pos[k][2]>>
(* add: first the growth test  elements / 2^q >= max_load_factor  (floor(10000 n / 2^q) >= lf is the same test on integers), then the insertion;
   a resize - automatic or requested - re-creates the parameters, which puts max_load_factor back to its default *)
QfAdd(s, k) == LET grow == T.auto /\ (10000 * s.n) \div P2(s.q) >= s.lf
                   g == IF grow THEN s.q + 1 ELSE s.q
                   f == IF grow THEN 8500 ELSE s.lf IN
               IF H(k) \in s.S THEN [s EXCEPT !.q = g, !.lf = f] ELSE [S |-> s.S \cup {H(k)}, q |-> g, n |-> s.n + 1, lf |-> f]
QfRem(s, k) == IF H(k) \in s.S THEN [s EXCEPT !.S = @ \ {H(k)}, !.n = @ - 1] ELSE s
RECURSIVE QfFold(_, _, _, _)
QfFold(s, ks, i, add) == IF i > Len(ks) THEN s ELSE QfFold(IF add THEN QfAdd(s, ks[i][1]) ELSE QfRem(s, ks[i][1]), ks, i + 1, add)
RECURSIVE FinalQ(_, _)
FinalQ(qq, cnt) == IF T.auto /\ cnt >= 1 /\ 100 * (cnt - 1) >= 85 * P2(qq) THEN FinalQ(qq + 1, cnt) ELSE qq

(* cuckoo: the history oracle only - outstanding additions per fingerprint class (pos[k][1]); evictions are not modelled here *)
RECURSIVE CkFold(_, _, _, _)
CkFold(s, ks, i, add) ==
  IF i > Len(ks) THEN s
  ELSE LET f == T.pos[ks[i][1]][1]  have == Cnt(s.out, f) IN
       CkFold(IF add THEN (IF T.kind = "ccko" THEN [out |-> s.out (+) (f :> 1), n |-> s.n + 1]
                           ELSE IF have > 0 THEN s ELSE [out |-> s.out (+) (f :> 1), n |-> s.n + 1])
              ELSE (IF have = 0 THEN s
                    ELSE IF T.kind = "ccko" THEN [out |-> s.out (-) (f :> 1), n |-> s.n - 1]
                    ELSE [out |-> s.out (-) (f :> have), n |-> s.n - 1]),
              ks, i + 1, add)

RECURSIVE ClassBag(_, _, _)
ClassBag(ks, lo, hi) == IF lo > hi THEN EmptyBag
                        ELSE IF lo = hi THEN (T.pos[ks[lo][1]][1] :> 1)
                        ELSE LET mid == (lo + hi) \div 2 IN ClassBag(ks, lo, mid) (+) ClassBag(ks, mid + 1, hi)
SumBag(b) == BagCardinality(b)

Apply(s, e) ==
  LET ks == e.ks IN
  CASE T.kind \in {"bloom", "disk"} ->
         (CASE e.op = "add" -> [s EXCEPT !.bits = @ \cup AllPos(ks), !.n = @ + Len(ks), !.out = @ (+) KeysBag(ks, 1, Len(ks))]
            [] e.op = "clear" -> [bits |-> {}, n |-> 0, out |-> EmptyBag]
            [] OTHER -> s)                                    \* reload / reopen / union (a query): identity
    [] T.kind \in {"cbloom", "cms"} ->
         (CASE e.op = "add" -> [s EXCEPT !.c = @ (+) CellBag(ks, 1, Len(ks)), !.n = @ + SumBag(KeysBag(ks, 1, Len(ks))), !.out = @ (+) KeysBag(ks, 1, Len(ks))]
            [] e.op = "rem" ->      \* legitimate removals only (amount <= outstanding): every cell stays >= 0
                 [s EXCEPT !.c = @ (-) CellBag(ks, 1, Len(ks)), !.n = @ - SumBag(KeysBag(ks, 1, Len(ks))), !.out = @ (-) KeysBag(ks, 1, Len(ks))]
            [] e.op = "clear" -> [c |-> EmptyBag, n |-> 0, out |-> EmptyBag]
            [] e.op = "join" ->      \* count-min join: the receiver takes the cells and the total of a sketch holding ks
                 [s EXCEPT !.c = @ (+) CellBag(ks, 1, Len(ks)), !.n = @ + SumBag(KeysBag(ks, 1, Len(ks))), !.out = @ (+) KeysBag(ks, 1, Len(ks))]
            [] OTHER -> s)
    [] T.kind \in {"hh", "st"} ->
         (CASE e.op \in {"add", "rem"} -> [last |-> [x \in (DOMAIN s.last) \cup {ks[1][1]} |-> IF x = ks[1][1] THEN e.ret ELSE s.last[x]],
                                          n |-> IF e.op = "add" THEN s.n + ks[1][2] ELSE s.n - ks[1][2]]
            [] e.op = "clear" -> [last |-> EmptyBag, n |-> 0]
            [] OTHER -> s)
    [] T.kind = "bits" ->
         (CASE e.op = "set" -> [s EXCEPT !.bits = @ \cup {ks[i][1] : i \in 1..Len(ks)}]
            [] e.op = "clr" -> [s EXCEPT !.bits = @ \ {ks[i][1] : i \in 1..Len(ks)}]
            [] e.op = "clear" -> [s EXCEPT !.bits = {}]
            [] OTHER -> s)
    [] T.kind \in {"ebf", "rbf"} ->
         (CASE e.op = "add" -> EbfFold(s, ks, 1)
            [] e.op = "push" ->
                 [s EXCEPT !.subs = IF T.kind = "rbf" /\ Len(@) >= T.qmax THEN Append(Tail(@), NewSub) ELSE Append(@, NewSub),
                           !.manual = TRUE, !.man = DOMAIN s.ins]
            [] e.op = "pop" -> [s EXCEPT !.subs = IF Len(@) > 1 THEN Tail(@) ELSE @, !.manual = TRUE, !.man = DOMAIN s.ins]     \* total (see TraceLayout)
            [] OTHER -> s)
    [] T.kind \in {"cko", "ccko"} ->
         (CASE e.op = "add" ->       \* a batch of successful adds is order-independent for the oracle
                 LET fb == ClassBag(ks, 1, Len(ks)) IN
                 IF T.kind = "ccko" THEN [out |-> s.out (+) fb, n |-> s.n + Len(ks)]
                 ELSE LET new == (DOMAIN fb) \ (DOMAIN s.out) IN [out |-> s.out (+) SetToBag(new), n |-> s.n + Cardinality(new)]
            [] e.op = "rem" -> CkFold(s, ks, 1, FALSE)
            [] OTHER -> s)                                    \* failed add, expand, reload: the oracle does not change
    [] OTHER ->
         (CASE e.op = "add" -> QfFold(s, ks, 1, TRUE)
            [] e.op = "rem" -> QfFold(s, ks, 1, FALSE)
            [] e.op = "rsz" -> [s EXCEPT !.q = FinalQ(e.a, s.n), !.lf = 8500]
            [] e.op = "lf" -> [s EXCEPT !.lf = e.a]            \* the max_load_factor setter
            [] OTHER -> s)

-----------------------------------------------------------------------------
CellsMin(c, ps) == MinOf({Cnt(c, ps[i]) : i \in 1..Len(ps)})
Answer(s, k) ==
  CASE T.kind \in {"bloom", "disk"} -> IF PosSet(k) \subseteq s.bits THEN 1 ELSE 0
    [] T.kind \in {"cbloom", "cms"} -> CellsMin(s.c, T.pos[k])
    [] T.kind \in {"ebf", "rbf"} -> IF InSubs(s.subs, k) THEN 1 ELSE 0
    [] T.kind \in {"hh", "st"} -> 0
    [] T.kind = "bits" -> IF k \in s.bits THEN 1 ELSE 0
    [] T.kind = "cko" -> IF Cnt(s.out, T.pos[k][1]) > 0 THEN 1 ELSE 0
    [] T.kind = "ccko" -> Cnt(s.out, T.pos[k][1])
    [] OTHER -> IF H(k) \in s.S THEN 1 ELSE 0

FullOK(s, e) ==
  CASE T.kind \in {"bloom", "disk"} ->
         IF e.op = "union" THEN {e.full[i] : i \in 1..Len(e.full)} = s.bits \cup AllPos(e.ks)     \* the union of this filter with a filter holding ks
         ELSE IF e.op = "inter" THEN {e.full[i] : i \in 1..Len(e.full)} = s.bits \cap AllPos(e.ks)
         ELSE {e.full[i] : i \in 1..Len(e.full)} = s.bits
    [] T.kind \in {"cbloom", "cms"} ->
         LET b2 == CellBag(e.ks, 1, Len(e.ks))
             both == (DOMAIN s.c) \cap (DOMAIN b2)
             c2 == IF e.op = "union" THEN s.c (+) b2                                   \* a counting-Bloom union is a query: this filter + a filter holding ks
                   ELSE IF e.op = "inter" THEN [p \in both |-> s.c[p] + b2[p]]          \* intersection: positions non-zero in both, cell-wise sum
                   ELSE s.c IN
         /\ \A i \in 1..Len(e.full) : Cnt(c2, e.full[i][1]) = e.full[i][2]
         /\ Len(e.full) = Cardinality(DOMAIN c2)
    [] T.kind = "st" -> LET want == {k \in DOMAIN s.last : s.last[k] >= T.est} IN      \* est carries the threshold
                        /\ {e.full[i][1] : i \in 1..Len(e.full)} = want
                        /\ \A i \in 1..Len(e.full) : e.full[i][2] = s.last[e.full[i][1]]
    [] T.kind = "hh" -> LET tracked == {e.full[i][1] : i \in 1..Len(e.full)}  seen == DOMAIN s.last IN      \* est carries number_heavy_hitters
                        /\ Len(e.full) = Cardinality(tracked) /\ tracked \subseteq seen
                        /\ Cardinality(tracked) = (IF Cardinality(seen) < T.est THEN Cardinality(seen) ELSE T.est)
                        /\ \A i \in 1..Len(e.full) : e.full[i][2] = s.last[e.full[i][1]]
                        /\ \A k \in seen \ tracked : \A i \in 1..Len(e.full) : s.last[k] <= e.full[i][2]
    [] T.kind = "bits" -> {e.full[i] : i \in 1..Len(e.full)} = s.bits
    [] T.kind \in {"ebf", "rbf"} -> /\ Len(e.full) = Len(s.subs)
                                    /\ \A i \in 1..Len(e.full) : /\ e.full[i].n = s.subs[i].n
                                                                 /\ {e.full[i].bits[j] : j \in 1..Len(e.full[i].bits)} = s.subs[i].bits
    [] T.kind \in {"cko", "ccko"} -> TRUE
    [] OTHER -> /\ Len(e.full) = Cardinality(s.S)                       \* hashes(): exactly the set, no duplicates
                /\ {<<e.full[i][1], e.full[i][2]>> : i \in 1..Len(e.full)} = s.S

Owed(s, k) ==   \* the history says the key must be reported (outstanding additions)
  CASE T.kind \in {"bloom", "disk", "cbloom", "cms"} -> Cnt(s.out, k)
    [] T.kind = "ebf" -> IF k \in DOMAIN s.ins THEN 1 ELSE 0
    [] T.kind \in {"cko", "ccko"} -> Cnt(s.out, T.pos[k][1])
    [] OTHER -> 0

Bad(s, e) ==     \* s = model state after the event
  LET pr == e.probes
      kind == T.kind
      I == 1..Len(pr)
      unionEv == e.op \in {"union", "inter"}
      interEv == e.op = "inter"
      su == IF e.op = "union" /\ kind \in {"bloom", "disk"} THEN [s EXCEPT !.bits = @ \cup AllPos(e.ks), !.out = @ (+) KeysBag(e.ks, 1, Len(e.ks))] ELSE s   \* probes of a union event are taken on the result
  IN
  (IF ~unionEv /\ kind # "bits" /\ e.n # s.n THEN {IF kind = "qf" THEN "C04.count" ELSE "C14.count." \o kind} ELSE {})
  \cup (IF kind \in {"bloom", "disk", "ebf"} /\ ~interEv /\ \E i \in I : Owed(su, pr[i][1]) > 0 /\ pr[i][2] = 0
        THEN {IF unionEv THEN "C01.present_after_union" ELSE "C01.present." \o kind} ELSE {})
  \cup (IF unionEv /\ kind \in {"bloom", "disk"} /\ ~FullOK(s, e) THEN {IF interEv THEN "C13.inter_bits" ELSE "C12.cells"} ELSE {})
  \cup (IF kind = "cbloom" /\ \E i \in I : pr[i][2] < Owed(s, pr[i][1]) THEN {"C08.cb_lower"} ELSE {})
  \cup (IF kind = "cms" /\ \E i \in I : (pr[i][2] < Owed(s, pr[i][1]) \/ pr[i][2] > s.n) THEN {"C02.bounds"} ELSE {})
  \cup (IF kind = "cms" /\ e.op \in {"add", "rem"} /\ Len(e.ks) = 1 /\ Len(pr) > 0 /\ pr[1][1] = e.ks[1][1] /\ e.ret # pr[1][2]
        THEN {"C02.ret_eq_check"} ELSE {})                       \* the value the call returned vs. what check() reported right afterwards
  \cup (IF kind = "cms" /\ e.op \in {"add", "rem"} /\ Len(e.ks) = 1 /\ e.ret # Answer(s, e.ks[1][1]) THEN {"DRIFT.ret"} ELSE {})
  \cup (IF kind = "qf" /\ \E i \in I : pr[i][2] # Answer(s, pr[i][1]) THEN {"C04.member"} ELSE {})
  \cup (IF kind = "qf" /\ Len(e.full) > 0 /\ ~FullOK(s, e) THEN {"C04.hashes"} ELSE {})
  \cup (IF kind \in {"cko", "ccko"} /\ e.op # "addfail" /\ \E i \in I : Owed(s, pr[i][1]) > 0 /\ pr[i][2] = 0 THEN {"C03.kept"} ELSE {})
  \cup (IF kind \in {"cko", "ccko"} /\ e.op = "addfail" /\ e.aux.lost > 0 THEN {"C03.failed_add_keeps"} ELSE {})
  \cup (IF kind = "ccko" /\ e.op # "addfail" /\ \E i \in I : pr[i][2] # Answer(s, pr[i][1]) THEN {"C08.cc_exact"} ELSE {})
  \cup (IF kind = "cko" /\ e.op # "addfail" /\ e.n # Cardinality(DOMAIN s.out) THEN {"C14.count.cuckoo"} ELSE {})
  \cup (IF kind = "ccko" /\ e.op # "addfail" /\ (e.n # SumBag(s.out) \/ e.aux.uniq # Cardinality(DOMAIN s.out)) THEN {"C14.count.ccuckoo"} ELSE {})
  \cup (IF kind \in {"ebf", "rbf"} /\ \E i \in 1..Len(e.aux.ns) : e.aux.ns[i] > T.est THEN {IF kind = "ebf" THEN "C09.cap" ELSE "C10.cap"} ELSE {})
  \cup (IF kind = "ebf" /\ ~s.manual /\ Len(e.aux.ns) - 1 # (IF s.eff = 0 THEN 0 ELSE ((s.eff + T.est - 1) \div T.est) - 1) THEN {"C09.growth"} ELSE {})
  \cup (IF kind = "rbf" /\ (Len(e.aux.ns) < 1 \/ Len(e.aux.ns) > T.qmax) THEN {"C10.bounds"} ELSE {})
  \cup (IF kind = "rbf" /\ \E i \in I : LET k == pr[i][1] IN
            k \in DOMAIN s.ins /\ k \notin s.man /\ s.eff - s.ins[k] < (T.qmax - 1) * T.est /\ pr[i][2] = 0 THEN {"C10.window"} ELSE {})
  \cup (IF kind \in {"hh", "st"} /\ Len(e.full) > 0 /\ e.aux.dump = 1 /\ ~FullOK(s, e) THEN {IF kind = "hh" THEN "C17.hh_table" ELSE "C17.thr_exact"} ELSE {})
  \cup (IF kind = "bits" /\ \E i \in I : pr[i][2] # Answer(s, pr[i][1]) THEN {"C20.read_last_write"} ELSE {})
  \cup (IF kind = "bits" /\ e.aux.dump = 1 /\ (~FullOK(s, e) \/ e.ret # Cardinality(s.bits)) THEN {"C20.frame_popcount"} ELSE {})
  \cup (IF kind \in {"cbloom", "cms"} /\ unionEv /\ ~FullOK(s, e) THEN {IF interEv THEN "C13.inter_bits" ELSE "C12.cells"} ELSE {})
  \cup (IF kind = "cms" /\ e.op = "join" /\ Len(e.full) > 0 /\ ~FullOK(s, e) THEN {"C12.cells"} ELSE {})       \* the joined sketch = one sketch fed both streams
  \cup (IF kind = "cms" /\ e.op = "join" /\ \E i \in I : pr[i][2] < Owed(s, pr[i][1]) THEN {"C12.sum_lower"} ELSE {})
  \cup (IF kind \notin {"qf", "cko", "ccko", "hh", "st", "bits"} /\ ~unionEv /\ \E i \in I : pr[i][2] # Answer(su, pr[i][1]) THEN {"DRIFT.answer"} ELSE {})
  \cup (IF kind \notin {"qf", "cko", "ccko", "hh", "st", "bits"} /\ ~unionEv /\ Len(e.full) > 0 /\ ~FullOK(s, e) THEN {"DRIFT.state"} ELSE {})
  \cup (IF kind = "qf" /\ e.aux.q # s.q THEN {"DRIFT.q"} ELSE {})
  \cup (IF kind = "qf" /\ e.aux.lf # s.lf THEN {"DRIFT.lf"} ELSE {})

Init == tid = 1 /\ l = 1 /\ st = InitState(1) /\ fails = {}
Step == /\ tid <= NT /\ l <= Len(T.ev)
        /\ LET e == T.ev[l]  s2 == Apply(st, e) IN
           /\ st' = s2
           /\ fails' = fails \cup {<<c, l>> : c \in Bad(s2, e) \ {x[1] : x \in fails}}      \* first occurrence of each clause
        /\ l' = l + 1 /\ tid' = tid
NextTrace == /\ tid <= NT /\ l > Len(T.ev)
             /\ PrintT(ToJson([verdict |-> T.id, n |-> Len(T.ev), fails |-> fails]))
             /\ tid' = tid + 1 /\ l' = 1 /\ st' = InitState(tid + 1) /\ fails' = {}
Next == Step \/ NextTrace
Spec == Init /\ [][Next]_vars
=============================================================================
