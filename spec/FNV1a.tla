------------------------------- MODULE FNV1a -------------------------------
(* Reference FNV-1a (64 and 32 bit) in little-endian byte limbs, because TLC integers are 32-bit.
   A 64-bit value is a sequence of 8 limbs in 0..255 (least significant first), a 32-bit value 4 limbs.
   A key is a sequence of "units": the bytes of a bytes key, or the code points of a text key (the
   implementation xors ord(c) into the state; for ASCII text that is the UTF-8 byte).
        h := basis + 31 * seed   (mod 2^w)          for every unit t:  h := (h xor t) * prime  (mod 2^w)
   prime64 = 2^40 + 435,  prime32 = 2^24 + 403: a byte shift plus a small multiplication.              *)
EXTENDS Integers, Sequences, Bitwise
LOCAL INSTANCE SequencesExt          \* FoldLeft (iterative): long keys without deep recursion

RECURSIVE AddC(_, _, _, _, _)
AddC(a, b, i, c, acc) == IF i > Len(a) THEN acc
                         ELSE LET s == a[i] + b[i] + c IN AddC(a, b, i + 1, s \div 256, Append(acc, s % 256))
AddLimbs(a, b) == AddC(a, b, 1, 0, <<>>)                     \* mod 2^(8*Len(a))

RECURSIVE MulC(_, _, _, _, _)
MulC(a, m, i, c, acc) == IF i > Len(a) THEN acc
                         ELSE LET s == a[i] * m + c IN MulC(a, m, i + 1, s \div 256, Append(acc, s % 256))
MulSmall(a, m) == MulC(a, m, 1, 0, <<>>)                      \* m < 2^20

Shl(a, n) == [i \in 1..Len(a) |-> IF i <= n THEN 0 ELSE a[i - n]]

(* xor an integer unit t (up to 0x10FFFF) into the low limbs *)
XorUnit(a, t) == [i \in 1..Len(a) |->
                    IF i = 1 THEN a[1] ^^ (t % 256)
                    ELSE IF i = 2 THEN a[2] ^^ ((t \div 256) % 256)
                    ELSE IF i = 3 THEN a[3] ^^ ((t \div 65536) % 256)
                    ELSE a[i]]

Basis64 == <<37, 35, 34, 132, 228, 156, 242, 203>>            \* 0xCBF29CE484222325
Basis32 == <<197, 157, 28, 129>>                              \* 0x811C9DC5
MulPrime64(a) == AddLimbs(Shl(a, 5), MulSmall(a, 435))       \* 0x100000001B3
MulPrime32(a) == AddLimbs(Shl(a, 3), MulSmall(a, 403))       \* 0x01000193

Loop64(h, key, i) == FoldLeft(LAMBDA acc, t : MulPrime64(XorUnit(acc, t)), h, key)
Loop32(h, key, i) == FoldLeft(LAMBDA acc, t : MulPrime32(XorUnit(acc, t)), h, key)

(* seed given as limbs (8 resp. 4, i.e. already reduced mod 2^w) *)
Fnv64(key, seed8) == Loop64(AddLimbs(Basis64, MulSmall(seed8, 31)), key, 1)
Fnv32(key, seed4) == Loop32(AddLimbs(Basis32, MulSmall(seed4, 31)), key, 1)

RECURSIVE ToLimbs(_, _)
ToLimbs(n, w) == IF w = 0 THEN <<>> ELSE <<n % 256>> \o ToLimbs(n \div 256, w - 1)     \* small naturals
Fnv64s(key, seed) == Fnv64(key, ToLimbs(seed, 8))
Fnv32s(key, seed) == Fnv32(key, ToLimbs(seed, 4))

RECURSIVE ModC(_, _, _, _)
ModC(a, m, i, r) == IF i = 0 THEN r ELSE ModC(a, m, i - 1, (r * 256 + a[i]) % m)
ModSmall(a, m) == ModC(a, m, Len(a), 0)                       \* value mod m, m < 2^23

(* the default strategy: depth values, seed = index *)
DefaultFnv(key, depth) == [i \in 1..depth |-> Fnv64s(key, i - 1)]
IsLimbs(v, w) == Len(v) = w /\ \A i \in 1..w : v[i] \in 0..255
IsPrefix2(a, b) == Len(a) <= Len(b) /\ \A i \in 1..Len(a) : a[i] = b[i]
=============================================================================
