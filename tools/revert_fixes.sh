#!/bin/sh
# for every repaired finding of known_findings.json: revert its fix: commit in a scratch worktree and run the check of its property -
# the defect must be reported again (a fixed entry suppresses nothing)
python3 - <<'PY' > /tmp/fixes.txt
import json
for f in json.load(open('/verif/known_findings.json'))['findings']:
    if f['status'] == 'fixed':
        print(f['id'], f['commit'], f['property'], ' '.join(f.get('also', [])))
PY
while read ID COMMIT PROP ALSO; do
  WT=/tmp/revwt_$$
  git -C /repo worktree add -q $WT HEAD || exit 2
  if git -C $WT revert --no-commit $COMMIT >/dev/null 2>&1; then
    OUT=$(cd /verif && VERIF_REPO=$WT ./check $PROP --tier quick 2>&1); RC=$?
    echo "$ID revert $COMMIT: ./check $PROP rc=$RC clauses: $(echo "$OUT" | grep '^VIOLATION' | sed 's/.*clause=\([^ ]*\).*/\1/' | sort -u | tr '\n' ' ')"
  else
    echo "$ID revert $COMMIT: does not revert cleanly (later fixes touch the same lines)"
  fi
  git -C /repo worktree remove --force $WT
done < /tmp/fixes.txt
git -C /verif checkout -- evidence 2>/dev/null
