#!/bin/sh
# usage: tools/repotests_on_seeds.sh <out-file> <seed-dir>...   : which seeded changes does the repository-test trace validation alone catch?
OUT=$1; shift
for D in "$@"; do
  ID=$(basename $D); P=${ID%%-*}
  WT=/tmp/rtwt_$$
  git -C /repo worktree add -q $WT HEAD || exit 2
  for PATCH in $D/patch*.diff; do
    git -C $WT checkout -q -- . ; git -C $WT apply $PATCH || continue
    R=$(cd /verif && VERIF_REPO=$WT PYTHONPATH=/verif:$WT PYTHONHASHSEED=0 /venv/bin/python -c "
from vlib.engines import repotests
t = repotests.run('$P', 'quick', 1)
print(len(t.violations), sorted({v.clause for v in t.violations}), 'drift', t.drift, t.extra['repo_tests_under_recorder']['pytest_exit'])
" 2>&1 | tail -1)
    echo "$ID $(basename $PATCH) $R" >> $OUT
  done
  git -C /repo worktree remove --force $WT
done
