"""usage: make_prompts.py [--theme <file>] [--suffix S] <pid>...
writes /tmp/seed_<pid><S>/seed/PROMPT.txt for the given property ids (the prompt contains only the property text and,
optionally, a paragraph naming the kind of change wanted in this round)"""
import json, sys
props = {json.loads(l)['id']: json.loads(l) for l in open('/verif/properties.jsonl')}
args = sys.argv[1:]
theme = ''
suffix = ''
while args and args[0].startswith('--'):
    if args[0] == '--theme':
        theme = open(args[1]).read().strip()
    elif args[0] == '--suffix':
        suffix = args[1]
    args = args[2:]
tmpl = '''You are working ONLY inside a scratch git worktree of the pure-Python library barrust/pyprobables at {path} . Do not read, write or execute anything under /repo or /verif (they are off limits); work only under {path} .

Tools: Python is /venv/bin/python . Run the library's test-suite with:  cd {path} && /venv/bin/python -m pytest -q -p no:cacheprovider   (312 tests, all pass on the clean tree). To make scripts import this worktree's copy of the library run them as:  cd {path} && PYTHONPATH={path} /venv/bin/python <script>

This is the semantic property of the library we care about (id {pid}, "{title}"):

STATEMENT: {statement}
QUANTIFIED OVER: {quant}

YOUR TASK: act as a careless-but-plausible maintainer and produce a realistic change to the library's source (files under {path}/probables/) that BREAKS this property, while (a) the library still imports and (b) the complete existing test-suite still passes unchanged (do not edit tests). The change must need something specific in order to manifest — a particular multi-step sequence of operations, an unusual input or geometry, a particular hash collision, a particular resolution of an internal random choice, a fault/crash at a particular point, or two cooperating code sites that each look fine alone — NOT something ordinary use would expose at once. Prefer changes that look like genuine refactorings, optimisations or off-by-one slips.
{theme}
Produce TWO different, independent changes if you can (each against the clean tree; different code sites / different failure mechanisms; if the property covers several structures, pick different structures). For change number N (N = 1, 2) deliver these files under {path}/seed/ :
  - patchN.diff : output of `git diff -- probables/` for that change alone (must apply to the clean tree with `git apply`)
  - demoN.py    : a small self-contained demonstration program which exits with a non-zero status (e.g. an AssertionError explaining what went wrong) when run with the change applied, and exits 0 on the clean tree. Run as: cd {path} && PYTHONPATH={path} /venv/bin/python seed/demoN.py
  - notesN.md   : 5-10 lines: what the change is, which part of the property it breaks, exactly what is needed for it to manifest.
Before finishing, verify for each change: with the patch applied the full test-suite passes and demoN.py fails; with the patch reverted (`git checkout -- probables/`) demoN.py passes. Leave the worktree clean of source changes at the end (`git checkout -- probables/`), keeping only the seed/ directory. Reply with a short summary of the two changes.'''
for pid in args:
    p = props[pid]
    path = f'/tmp/seed_{pid}{suffix}'
    open(f'{path}/seed/PROMPT.txt', 'w').write(tmpl.format(path=path, pid=pid, title=p['title'], statement=p['statement'], quant=p['quantifier']['text'], theme=('\nTHIS ROUND: ' + theme + '\n') if theme else ''))
print("ok")
