"""usage: make_benign_prompts.py <pid>...   writes /tmp/ben_<pid>/seed/PROMPT.txt: asks for PROPERTY-PRESERVING changes (refactorings that alter
internals or unspecified behaviour) - used to test that the checks raise no alarm on code for which the property still holds"""
import json, sys
props = {json.loads(l)['id']: json.loads(l) for l in open('/verif/properties.jsonl')}
tmpl = '''You are working ONLY inside a scratch git worktree of the pure-Python library barrust/pyprobables at {path} . Do not read, write or execute anything under /repo or /verif (they are off limits); work only under {path} .

Tools: Python is /venv/bin/python . Run the library's test-suite with:  cd {path} && /venv/bin/python -m pytest -q -p no:cacheprovider   (312 tests, all pass on the clean tree). To make scripts import this worktree's copy of the library run them as:  cd {path} && PYTHONPATH={path} /venv/bin/python <script>

This is a semantic property of the library that users rely on (id {pid}, "{title}"):

STATEMENT: {statement}
QUANTIFIED OVER: {quant}

YOUR TASK: act as a competent maintainer and produce realistic changes to the library's source (files under {path}/probables/) that KEEP THIS PROPERTY TRUE - for every input, history and configuration it quantifies over - but that change HOW the code achieves it, as deeply as you can while staying correct. We use these changes to make sure that our property checkers do not raise false alarms on correct code, so the more the internals (and any behaviour the property and the public documentation leave open) differ from the original, the more useful the change. Ideas: replace an internal data structure by another one (lists vs arrays vs tuples vs ints used as bit sets vs dicts), rename or remove private attributes and private helper methods (names starting with an underscore) or split / merge them, restructure loops (vectorised, chunked, recursive, early exits that are provably safe), add caches or lazily allocated storage that are correctly invalidated, change the order in which independent cells are updated, change unspecified choices (which of several equally valid slots / buckets / victims is used, the order of entries inside a bucket, tie-breaks, the number and order of calls to the random module, when exactly an automatic growth is triggered IF the property leaves that open), change exception messages (not exception types), add new optional keyword arguments with defaults, reorder writes to a file in a way that keeps every documented guarantee. Public method names, signatures, documented return values, exported byte formats and exception types must stay as they are; the complete existing test-suite must still pass unchanged (do not edit tests).

Produce TWO different, independent changes (each against the clean tree; different code sites; each substantial: not a comment or a rename of a local variable). For change number N (N = 1, 2) deliver these files under {path}/seed/ :
  - patchN.diff : output of `git diff -- probables/` for that change alone (must apply to the clean tree with `git apply`)
  - argueN.md   : 10-20 lines: what was changed, and an argument why the property above still holds for ALL inputs / histories / configurations (mention anything observable that does change, e.g. bucket order, number of random draws, private attribute names).
  - exerciseN.py : a small program that exercises the changed code paths heavily against a straightforward reference (e.g. a Python set / dict / Counter oracle, or the clean semantics as you understand them) and exits 0; it must exit 0 with the change applied AND on the clean tree. Run as: cd {path} && PYTHONPATH={path} /venv/bin/python seed/exerciseN.py
Before finishing, verify for each change: with the patch applied the full test-suite passes and exerciseN.py exits 0; be self-critical - if you find an input for which the property fails with your change, fix the change. Never use `git stash` (the stash is shared between worktrees): to switch between the clean and the changed tree use `git diff -- probables/ > seed/patchN.diff`, `git checkout -- probables/` and `git apply seed/patchN.diff`. Leave the worktree clean of source changes at the end (`git checkout -- probables/`), keeping only the seed/ directory. Reply with a short summary of the two changes.'''
for pid in sys.argv[1:]:
    p = props[pid]
    path = f'/tmp/ben_{pid}'
    open(f'{path}/seed/PROMPT.txt', 'w').write(tmpl.format(path=path, pid=pid, title=p['title'], statement=p['statement'], quant=p['quantifier']['text']))
print("ok")
