#!/bin/sh
# usage: tools/eval_benign.sh <seed-dir> <N> [<prop>...]
# applies a PROPERTY-PRESERVING change in a scratch worktree, confirms tests + exercise pass, and runs the quick checks of every property
# whose anchored code the patch touches (or the given ones): every check must exit 0 (DRIFT lines are fine, VIOLATION / exit 2 are not)
D=$1; N=$2; shift 2
WT=/tmp/benwt_$$
git -C /repo worktree add -q $WT HEAD || exit 2
cd $WT
git apply $D/patch$N.diff || { echo "patch does not apply"; git -C /repo worktree remove --force $WT; exit 2; }
echo "tests: $(/venv/bin/python -m pytest -q -p no:cacheprovider 2>&1 | tail -1)"
PYTHONPATH=$WT timeout 900 /venv/bin/python $D/exercise$N.py >/dev/null 2>&1; echo "exercise with change: rc=$? (want 0)"
PROPS="$*"
if [ -z "$PROPS" ]; then
  F=$(git diff --name-only)
  case "$F" in *utilities.py*) PROPS="$PROPS C20 C04";; esac
  case "$F" in *countminsketch.py*) PROPS="$PROPS C02 C17 C12 C16 C19 C05 C06";; esac
  case "$F" in *blooms/bloom.py*|*countingbloom.py*) PROPS="$PROPS C01 C11 C05 C06 C12 C13 C08 C19 C09";; esac
  case "$F" in *expandingbloom.py*) PROPS="$PROPS C09 C10 C05 C06 C19";; esac
  case "$F" in *cuckoo*) PROPS="$PROPS C03 C15 C08 C05 C06 C19";; esac
  case "$F" in *quotientfilter.py*) PROPS="$PROPS C04 C19";; esac
  case "$F" in *hashes.py*) PROPS="$PROPS C18 C06 C01 C02";; esac
  PROPS=$(echo $PROPS | tr ' ' '\n' | sort -u | tr '\n' ' ')
fi
cd /verif
for P in $PROPS; do
  OUT=$(VERIF_REPO=$WT ./check $P --tier quick 2>&1); RC=$?
  echo "--- $P rc=$RC : $(echo "$OUT" | grep -c '^VIOLATION') violation lines; clauses: $(echo "$OUT" | grep '^VIOLATION' | sed 's/.*clause=\([^ ]*\).*/\1/' | sort -u | tr '\n' ' ') $(echo "$OUT" | grep -c '^DRIFT') drift-lines"
  [ $RC -ne 0 ] && echo "$OUT" | grep -v "^WARNING" | tail -6
  echo "$OUT" | grep "^property=" | tail -1
done
git -C /repo worktree remove --force $WT
git -C /verif checkout -- evidence 2>/dev/null
