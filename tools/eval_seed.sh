#!/bin/sh
# usage: tools/eval_seed.sh <seed-dir> <N> <tier> <prop> [<prop>...]
# confirms a seeded change (tests pass, demo fails with / passes without) in a scratch worktree and runs the checks against it
D=$1; N=$2; TIER=$3; shift 3
WT=/tmp/evalwt_$$
git -C /repo worktree add -q $WT HEAD || exit 2
cd $WT
PYTHONPATH=$WT /venv/bin/python $D/demo$N.py >/dev/null 2>&1; echo "demo on clean tree: rc=$? (want 0)"
git apply $D/patch$N.diff || { echo "patch does not apply"; git -C /repo worktree remove --force $WT; exit 2; }
/venv/bin/python -m pytest -q -p no:cacheprovider 2>&1 | tail -1
PYTHONPATH=$WT /venv/bin/python $D/demo$N.py >/dev/null 2>&1; echo "demo with change: rc=$? (want non-zero)"
cd /verif
for P in "$@"; do
  OUT=$(VERIF_REPO=$WT ./check $P --tier $TIER 2>&1)
  echo "--- $P rc=$? : $(echo "$OUT" | grep -c '^VIOLATION') violation lines; clauses: $(echo "$OUT" | grep '^VIOLATION' | sed 's/.*clause=\([^ ]*\).*/\1/' | sort -u | tr '\n' ' ')"
  echo "$OUT" | grep "^property=" | tail -1
done
git -C /repo worktree remove --force $WT
git -C /verif checkout -- evidence 2>/dev/null
