"""usage: keep_seeds.py <round-label> <origin-text> <results.json>
results.json: {"C06": {"1": ["detected_by_clauses", "tier", "note"], "2": [...]}, ...}; copies /tmp/seed_<P>/seed/{patchN.diff,demoN.py,notesN.md}
to /verif/seeded/<P>-<next>/ with meta.json"""
import json, os, shutil, sys, re
label, origin, res = sys.argv[1], sys.argv[2], json.load(open(sys.argv[3]))
for P, d in sorted(res.items()):
    have = [int(x.split('-')[1]) for x in os.listdir('/verif/seeded') if x.startswith(P + '-')]
    nxt = max(have, default=0) + 1
    for N, (clauses, tier, note) in sorted(d.items()):
        src = f'/tmp/seed_{P}/seed'
        dst = f'/verif/seeded/{P}-{nxt}'
        os.makedirs(dst)
        shutil.copy(f'{src}/patch{N}.diff', f'{dst}/patch.diff')
        shutil.copy(f'{src}/demo{N}.py', f'{dst}/demo.py')
        notes = open(f'{src}/notes{N}.md').read()
        open(f'{dst}/notes.md', 'w').write(notes)
        first = next((l.strip() for l in notes.splitlines() if l.strip() and not l.startswith('#')), '')
        meta = {"property": P, "breaks": first[:300], "needs_to_manifest": "see notes.md", "origin": f"{label}: {origin}",
                "confirmed": "tools/eval_seed.sh: demo exits 0 on the clean tree, the 312 repository tests pass with the patch, demo exits non-zero with the patch",
                "ran": f"VERIF_REPO=<scratch worktree with patch> ./check {P} --tier {tier}", "detected_by_clauses": clauses, "tier": tier}
        if note:
            meta["note"] = note
        json.dump(meta, open(f'{dst}/meta.json', 'w'), indent=1)
        print(dst, clauses)
        nxt += 1
